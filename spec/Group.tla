------------------------------- MODULE Group -------------------------------
(* dispatch_group_t on Linux/futex (src/semaphore.c:148-407, src/semaphore_internal.h,
   src/inline_internal.h os_mpsc_*, _dispatch_continuation_with_group_invoke,
   src/shims/lock.c _dispatch_futex_wait/_wake).
   SEVERAL groups live at once (CONSTANT Groups): every shared word is indexed by its group, a thread
   is inside at most one call at a time (lv[t].grp names the group of that call).
   One action per shared-memory access / kernel call of the implementation:

     dispatch_group_enter   : os_atomic_sub_orig2o(dg_bits, INTERVAL, acquire)  -- 32 bits, no borrow into dg_gen
     dispatch_group_leave   : os_atomic_add_orig2o(dg_state, INTERVAL, release) -- 64 bits, the carry bumps dg_gen
                              if old_value == VALUE_1: CAS loop on the LOCAL old_state (re-read only when
                              the CAS fails) clearing HAS_WAITERS|HAS_NOTIFS (only HAS_NOTIFS if re-entered),
                              then _dispatch_group_wake(dg, old_state)
     _dispatch_group_wake   : if HAS_NOTIFS: os_mpsc_capture_snapshot (load head [spin while NULL],
                              store head NULL, xchg tail NULL), then per continuation: load do_next
                              [spin while NULL] unless it is the snapshot tail, dx_push (submit);
                              if HAS_WAITERS: futex wake-all on dg_gen
     dispatch_group_wait    : rmw loop on dg_state (load, give up at value 0 / timeout 0 / bit already
                              set, else CAS setting HAS_WAITERS), _dispatch_group_wait_slow: loop
                              { _dispatch_wait_on_address(&dg_gen, gen, timeout); load dg_gen; ... }
     _dispatch_group_notify : os_mpsc_push_update_tail (xchg tail), os_mpsc_push_update_prev
                              (store prev->do_next, or store head when the list was empty); the first
                              pusher runs an rmw loop on dg_state: fires at once when (uint32_t)state == 0,
                              otherwise CAS sets HAS_NOTIFS
     dispatch_group_async   : enter(dg) + continuation; the thread that runs it does
                              _dispatch_continuation_with_group_invoke: { dou = dc->dc_data (THE GROUP, a local
                              copy: the continuation itself is already back in the thread's cache and is
                              reused by the first continuation the block allocates); client callout;
                              dispatch_group_leave(dou) }.  The callout may itself enter / async / notify
                              on this or on ANOTHER group.  cur[t] = the item thread t is running:
                              ItemStart .. (nested calls) .. ItemEnd, then the library's leave -- which must
                              be on the group the item ENTERED (cur[t].g).

   dg_state is the record st[g] = [gen, nv, hn, hw]; nv is the RAW value field (bits 2..31 of the
   word, i.e. minus the entered count modulo 2^K; K = 30 in the library, small when model checking),
   so that enter/leave are the library's modular arithmetic and the carry is explicit.
   The notify list is the real MPSC list: ntail[g], nhead[g], nnext[] (0 = NULL).

   Property C07 is stated on ghost variables (per group: outstanding enter tokens; per-notification snapshot
   of the tokens outstanding at the notify call, fired counts, per-wait "count was zero during the call").
   "Every enter is balanced by one leave ON THE SAME GROUP" = conservation, per group:
   Count(st[g]) = |outstanding[g]| and outstanding[g] = the tokens somebody still holds (TypeOK).

   KNOWN DEFECT F2 of the pinned tree (DESIGN.md section 9): _dispatch_group_wake snapshots the list some
   time after the decision "the count is zero"; a notifier pushed in that window is fired with the old
   generation even if work entered before its notify call is outstanding.  NotifyNotEarly (the property as
   stated) is therefore violated by this faithful spec; the ghost `win`/`f2` classifies such a firing
   (earlyF2) and every other early firing is earlyOther: NotifyNotEarlyExceptF2 must hold. *)
EXTENDS Integers, FiniteSets, Sequences, TLC

CONSTANTS Threads,   \* all threads (clients and workers)
          Workers,   \* threads that run dispatch_group_async work (model checking only)
          Groups,    \* the groups (a set of non-negative integers)
          K,         \* width of the value field
          NIds,      \* notifier (continuation) identities, a set of positive integers (shared by the groups)
          Prog,      \* model checking: Prog[t] = sequence of SETS of operations <<kind, group, body>>
          MaxSpur,   \* bound on spurious futex wake-ups (-1 = unbounded, trace validation)
          Mut        \* "none" or the name of a spec mutation (non-vacuity runs)

VMOD == 2 ^ K
\* the ghosts of the observation NoMissedZero are only maintained when asked for (they cost states)
Track == Mut = "obs_missed_zero"
\* mutant: the leave after a dispatch_group_async block is applied to dc->dc_data re-read AFTER the callout, i.e.
\* to the group of the last dispatch_group_async the block itself made (the continuation was reused)
MutData == Mut = "async_leaves_last_touched_group"

Count(nv) == (VMOD - nv) % VMOD          \* _dg_state_value()
NoG == -1                                \* "no group"

VARIABLES st,          \* [Groups -> dg_state: [gen, nv, hn, hw]]
          ntail, nhead, \* [Groups -> dg_notify_tail / dg_notify_head]
          nnext,       \* do_next of the notify continuations
          futexQ,      \* [Groups -> threads sleeping in futex_wait(&dg_gen)]
          pc, lv,      \* per thread control point and locals (lv[t].grp = the group of the call in progress)
          ip,          \* per thread position in Prog / in the body of the item it runs (model checking only)
          spur,        \* spurious wake-ups taken
          cur,         \* per thread: the dispatch_group_async item it is running [tk, g, data, done] (tk = 0: none)
          \* ----- ghosts -----
          outstanding, \* [Groups -> enter tokens not yet matched by a leave ON THAT GROUP (linearised at the atomics)]
          own,         \* [Groups -> per thread: tokens entered by this thread that it has not started to leave]
          tasks,       \* [Groups -> tokens of dispatch_group_async work the library has not yet left for]
          pushed,      \* [Groups -> notifiers that are on (or went through) the list]
          regd,        \* notifiers whose dispatch_group_notify call has returned or decided to fire
          before,      \* notifier -> tokens outstanding (in its group) at its dispatch_group_notify call
          zeroAfter,   \* notifier -> a leave brought the count to zero after it was registered and before it fired
          fired,       \* notifier -> times submitted (dx_push)
          ran,         \* notifier -> times its block ran (trace validation only)
          zeroSeen,    \* per thread: the count was zero at some moment of the current/last wait call
          waitRes,     \* per thread: result of the last wait call: "none" | "ok" | "timeout"
          earlyF2, earlyOther   \* an early submission happened, of class F2 / of any other class

vars == <<st, ntail, nhead, nnext, futexQ, pc, lv, ip, spur, cur, outstanding, own, tasks, pushed, regd, before,
          zeroAfter, fired, ran, zeroSeen, waitRes, earlyF2, earlyOther>>

S0 == [gen |-> 0, nv |-> 0, hn |-> 0, hw |-> 0]
L0 == [grp |-> NoG, o |-> S0, g |-> 0, kind |-> "forever", tmo |-> FALSE, rc |-> "none",
       n |-> 0, prev |-> 0, bef |-> {}, head |-> 0, tail |-> 0, dc |-> 0, nx |-> 0,
       ohn |-> 0, ohw |-> 0, dec |-> FALSE, win |-> {}, f2 |-> {}, nul |-> FALSE]
C0 == [tk |-> 0, g |-> NoG, data |-> NoG, done |-> FALSE]

Init == /\ st = [g \in Groups |-> S0] /\ ntail = [g \in Groups |-> 0] /\ nhead = [g \in Groups |-> 0]
        /\ nnext = [n \in NIds |-> 0]
        /\ futexQ = [g \in Groups |-> {}] /\ pc = [t \in Threads |-> "idle"] /\ lv = [t \in Threads |-> L0]
        /\ ip = [t \in Threads |-> 1] /\ spur = 0 /\ cur = [t \in Threads |-> C0]
        /\ outstanding = [g \in Groups |-> {}] /\ own = [g \in Groups |-> [t \in Threads |-> {}]]
        /\ tasks = [g \in Groups |-> {}]
        /\ pushed = [g \in Groups |-> {}] /\ regd = {} /\ before = [n \in NIds |-> {}]
        /\ zeroAfter = [n \in NIds |-> FALSE]
        /\ fired = [n \in NIds |-> 0] /\ ran = [n \in NIds |-> 0]
        /\ zeroSeen = [t \in Threads |-> FALSE] /\ waitRes = [t \in Threads |-> "none"]
        /\ earlyF2 = FALSE /\ earlyOther = FALSE

WaitPcs == {"w_load", "w_cas", "w_fcall", "w_sleep", "w_gload"}
InWait(t) == pc[t] \in WaitPcs
G(t) == lv[t].grp                        \* the group of the call thread t is in
PushedAll == UNION {pushed[g] : g \in Groups}

Reg(n) == IF Track THEN regd \cup {n} ELSE regd
Go(t, l) == pc' = [pc EXCEPT ![t] = l]
Set(t, r) == lv' = [lv EXCEPT ![t] = r]
\* locals are dead once the call has returned (only the ghost `tmo` is read by a property)
Clean(r) == [L0 EXCEPT !.tmo = r.tmo]
GoSet(t, l, r) == Go(t, l) /\ Set(t, IF l = "idle" THEN Clean(r) ELSE r)

(* ------------------------------- API entry ------------------------------- *)
\* the snapshot "work entered before the notify call" is taken here
CallNotify(t, g) ==
    /\ pc[t] = "idle" /\ Go(t, "nf_xchg") /\ Set(t, [lv[t] EXCEPT !.grp = g, !.bef = outstanding[g]])
    /\ UNCHANGED <<st, ntail, nhead, nnext, futexQ, spur, cur, outstanding, own, tasks, pushed, regd, before,
                   zeroAfter, fired, ran, zeroSeen, waitRes, earlyF2, earlyOther>>
CallWait(t, g, k) ==
    /\ pc[t] = "idle" /\ Go(t, "w_load")
    /\ Set(t, [lv[t] EXCEPT !.grp = g, !.kind = k, !.tmo = FALSE, !.rc = "none"])
    \* C07 speaks about the enters and leaves (the ghost), not about the word
    /\ zeroSeen' = [zeroSeen EXCEPT ![t] = (outstanding[g] = {})]
    /\ waitRes' = [waitRes EXCEPT ![t] = "none"]
    /\ UNCHANGED <<st, ntail, nhead, nnext, futexQ, spur, cur, outstanding, own, tasks, pushed, regd, before,
                   zeroAfter, fired, ran, earlyF2, earlyOther>>

(* --------------------------- dispatch_group_enter --------------------------- *)
\* uint32_t old_bits = os_atomic_sub_orig2o(dg, dg_bits, INTERVAL, acquire);  (32 bits: gen untouched)
\* old_value == VALUE_MAX is a client crash ("too many nested calls"): not a legal history.
\* The call has this single step (call, access and return are one action; `tk` names the work entered,
\* `async` says that it is dispatch_group_async work, which the thread that runs the block will leave).
Enter(t, g, tk, async) ==
    /\ pc[t] = "idle" /\ Count(st[g].nv) < VMOD - 1
    /\ st' = [st EXCEPT ![g].nv = (@ + VMOD - 1) % VMOD]
    /\ outstanding' = [outstanding EXCEPT ![g] = @ \cup {tk}]
    /\ IF async THEN tasks' = [tasks EXCEPT ![g] = @ \cup {tk}] /\ own' = own
                ELSE own' = [own EXCEPT ![g][t] = @ \cup {tk}] /\ tasks' = tasks
    \* (mutant) dispatch_group_async from inside an item reuses the item's continuation: dc_data := g
    /\ cur' = IF MutData /\ async /\ cur[t].tk # 0 THEN [cur EXCEPT ![t].data = g] ELSE cur
    /\ UNCHANGED <<ntail, nhead, nnext, futexQ, pc, lv, spur, pushed, regd, before, zeroAfter, fired, ran,
                   zeroSeen, waitRes, earlyF2, earlyOther>>

(* ------------------- _dispatch_continuation_with_group_invoke ------------------- *)
Running == {cur[u].tk : u \in Threads} \ {0}
\* the client callout of item tk (entered in group g) starts on thread t
\* (d: model checking collapses start and end of an empty block, both are local)
ItemStartD(t, g, tk, d) ==
    /\ pc[t] = "idle" /\ cur[t].tk = 0 /\ tk \in tasks[g] /\ tk \notin Running
    /\ cur' = [cur EXCEPT ![t] = [tk |-> tk, g |-> g, data |-> g, done |-> d]]
    /\ UNCHANGED <<st, ntail, nhead, nnext, futexQ, pc, lv, spur, outstanding, own, tasks, pushed, regd, before,
                   zeroAfter, fired, ran, zeroSeen, waitRes, earlyF2, earlyOther>>
ItemStart(t, g, tk) == ItemStartD(t, g, tk, FALSE)
\* ... and has returned: the next thing the thread does is the library's dispatch_group_leave
ItemEnd(t, tk) ==
    /\ pc[t] = "idle" /\ tk # 0 /\ cur[t].tk = tk /\ ~cur[t].done
    /\ cur' = [cur EXCEPT ![t].done = TRUE]
    /\ UNCHANGED <<st, ntail, nhead, nnext, futexQ, pc, lv, spur, outstanding, own, tasks, pushed, regd, before,
                   zeroAfter, fired, ran, zeroSeen, waitRes, earlyF2, earlyOther>>

(* ---------------------------- _dispatch_group_wake ---------------------------- *)
\* control point after the decision to call _dispatch_group_wake(dg, o, ...) has been taken (local)
WakePc(o) == IF o.hn = 1 THEN "wk_head" ELSE IF o.hw = 1 THEN "wk_futex" ELSE "idle"
\* locals on entry of wake; the F2 window closes at once when no snapshot will be taken
WakeLv(r, o) == [r EXCEPT !.ohn = o.hn, !.ohw = o.hw, !.nul = FALSE,
                          !.dec = IF o.hn = 1 THEN @ ELSE FALSE,
                          !.win = IF o.hn = 1 THEN @ ELSE {}]

\* dc = os_mpsc_get_head(): load dg_notify_head, spinning in _dispatch_wait_for_enqueuer while NULL
WakeGetHead(t) ==
    /\ pc[t] = "wk_head" /\ nhead[G(t)] # 0
    /\ Set(t, [lv[t] EXCEPT !.head = nhead[G(t)], !.nul = FALSE]) /\ Go(t, "wk_hclr")
    /\ UNCHANGED <<st, ntail, nhead, nnext, futexQ, ip, spur, cur, outstanding, own, tasks, pushed, regd, before,
                   zeroAfter, fired, ran, zeroSeen, waitRes, earlyF2, earlyOther>>
\* the first load returned NULL (only distinguished in traces; afterwards the spin reads are unlogged)
WakeHeadNull(t) ==
    /\ pc[t] = "wk_head" /\ nhead[G(t)] = 0 /\ Set(t, [lv[t] EXCEPT !.nul = TRUE])
    /\ UNCHANGED <<st, ntail, nhead, nnext, futexQ, pc, ip, spur, cur, outstanding, own, tasks, pushed, regd, before,
                   zeroAfter, fired, ran, zeroSeen, waitRes, earlyF2, earlyOther>>
\* os_atomic_store(head, NULL, relaxed)
WakeHeadClear(t) ==
    /\ pc[t] = "wk_hclr"
    /\ nhead' = IF Mut = "wake_noclear" THEN nhead ELSE [nhead EXCEPT ![G(t)] = 0]
    /\ Go(t, "wk_txchg")
    /\ UNCHANGED <<st, ntail, nnext, futexQ, lv, ip, spur, cur, outstanding, own, tasks, pushed, regd, before,
                   zeroAfter, fired, ran, zeroSeen, waitRes, earlyF2, earlyOther>>
\* *tail = os_atomic_xchg(tail, NULL, release): THE LIST SNAPSHOT.  The F2 window closes here:
\* f2 = notifiers that were pushed after this thread's zero decision and are in this snapshot.
WakeTailXchg(t) ==
    /\ pc[t] = "wk_txchg"
    /\ ntail' = IF Mut = "wake_noclear" THEN ntail ELSE [ntail EXCEPT ![G(t)] = 0]
    /\ Set(t, [lv[t] EXCEPT !.tail = ntail[G(t)], !.dc = lv[t].head, !.nx = 0,
                            !.f2 = IF lv[t].dec THEN lv[t].win ELSE {}, !.dec = FALSE, !.win = {}])
    /\ Go(t, IF lv[t].head # ntail[G(t)] THEN "wk_next" ELSE "wk_submit")
    /\ UNCHANGED <<st, nhead, nnext, futexQ, ip, spur, cur, outstanding, own, tasks, pushed, regd, before,
                   zeroAfter, fired, ran, zeroSeen, waitRes, earlyF2, earlyOther>>
\* next_dc = os_mpsc_get_next(dc, do_next): load, spinning while the enqueuer has not linked yet
WakeGetNext(t) ==
    /\ pc[t] = "wk_next" /\ nnext[lv[t].dc] # 0
    /\ Set(t, [lv[t] EXCEPT !.nx = nnext[lv[t].dc], !.nul = FALSE]) /\ Go(t, "wk_submit")
    /\ UNCHANGED <<st, ntail, nhead, nnext, futexQ, ip, spur, cur, outstanding, own, tasks, pushed, regd, before,
                   zeroAfter, fired, ran, zeroSeen, waitRes, earlyF2, earlyOther>>
WakeNextNull(t) ==
    /\ pc[t] = "wk_next" /\ nnext[lv[t].dc] = 0 /\ Set(t, [lv[t] EXCEPT !.nul = TRUE])
    /\ UNCHANGED <<st, ntail, nhead, nnext, futexQ, pc, ip, spur, cur, outstanding, own, tasks, pushed, regd, before,
                   zeroAfter, fired, ran, zeroSeen, waitRes, earlyF2, earlyOther>>
\* _dispatch_continuation_async(dsn_queue, dc, ...): the notification block is SUBMITTED (dx_push).
\* C07 "not before all work entered before the notify call has left" is evaluated here.
WakeSubmit(t) ==
    /\ pc[t] = "wk_submit"
    /\ LET n == lv[t].dc
           nx == lv[t].nx
           isEarly == before[n] \cap outstanding[G(t)] # {}
       IN /\ fired' = [fired EXCEPT ![n] = @ + 1]
          /\ earlyF2' = (earlyF2 \/ (isEarly /\ n \in lv[t].f2))
          /\ earlyOther' = (earlyOther \/ (isEarly /\ n \notin lv[t].f2))
          /\ GoSet(t, IF nx = 0 THEN (IF lv[t].ohw = 1 THEN "wk_futex" ELSE "idle")
                      ELSE IF nx # lv[t].tail THEN "wk_next" ELSE "wk_submit",
                   [lv[t] EXCEPT !.dc = nx, !.nx = 0])
    /\ UNCHANGED <<st, ntail, nhead, nnext, futexQ, ip, spur, cur, outstanding, own, tasks, pushed, regd, before,
                   zeroAfter, ran, zeroSeen, waitRes>>
\* _dispatch_wake_by_address(&dg->dg_gen): FUTEX_WAKE all
WakeFutex(t) ==
    /\ pc[t] = "wk_futex"
    /\ futexQ' = IF Mut = "leave_nowake" THEN futexQ ELSE [futexQ EXCEPT ![G(t)] = {}]
    /\ GoSet(t, "idle", lv[t])
    /\ UNCHANGED <<st, ntail, nhead, nnext, ip, spur, cur, outstanding, own, tasks, pushed, regd, before,
                   zeroAfter, fired, ran, zeroSeen, waitRes, earlyF2, earlyOther>>

(* --------------------------- dispatch_group_leave --------------------------- *)
\* one evaluation of the body of the do-while loop on the LOCAL old_state o (no shared access):
\* returns the word to CAS in
LeaveNew(o) == IF Mut = "wake_noclear"      \* mutant: the list (and its bit) is treated as persistent
                 THEN (IF o.nv = 0 THEN [o EXCEPT !.hw = 0] ELSE o)
               ELSE IF o.nv = 0 THEN [o EXCEPT !.hn = 0, !.hw = 0] ELSE [o EXCEPT !.hn = 0]
\* old_state = os_atomic_add_orig2o(dg, dg_state, INTERVAL, release) ON GROUP g; carry into gen when nv = VMOD-1.
\* An unbalanced leave (old_value == 0) is a client crash: not a legal history.
\* `tk` is the work being left: the caller's own (dispatch_group_leave: tk entered g by this thread), or the
\* dispatch_group_async item this thread has just finished running (_dispatch_continuation_with_group_invoke:
\* the callout has returned -- cur[t].done -- and g is THE GROUP THE ITEM ENTERED).  The mutant leaves the group
\* found in the reused continuation instead; then the ghost of g loses nothing (nobody entered g as tk).
Leave(t, g, tk) ==
    /\ pc[t] = "idle" /\ Count(st[g].nv) > 0
    /\ \/ /\ tk \in own[g][t]
          /\ own' = [own EXCEPT ![g][t] = @ \ {tk}] /\ tasks' = tasks /\ cur' = cur
       \/ /\ tk # 0 /\ cur[t].tk = tk /\ cur[t].done /\ tk \in tasks[cur[t].g]
          /\ g = (IF MutData THEN cur[t].data ELSE cur[t].g)
          /\ tasks' = [tasks EXCEPT ![cur[t].g] = @ \ {tk}] /\ own' = own
          /\ cur' = [cur EXCEPT ![t] = C0]
    /\ LET s == st[g]
           one == IF Mut = "leave_anyvalue" THEN TRUE ELSE (s.nv = VMOD - 1)   \* old_value == VALUE_1
           ns == [s EXCEPT !.nv = (s.nv + 1) % VMOD, !.gen = IF s.nv = VMOD - 1 THEN s.gen + 1 ELSE s.gen]
           zero == (ns.nv = 0)                          \* the word
           left == outstanding[g] \ {tk}                \* the ghost
       IN /\ st' = [st EXCEPT ![g] = ns]
          /\ outstanding' = [outstanding EXCEPT ![g] = left]
          /\ zeroSeen' = [u \in Threads |-> zeroSeen[u] \/ (left = {} /\ InWait(u) /\ G(u) = g)]
          /\ zeroAfter' = [n \in NIds |-> zeroAfter[n] \/ (Track /\ zero /\ n \in regd /\ n \in pushed[g] /\ fired[n] = 0)]
          /\ IF one
               THEN \* old_state += INTERVAL; this is a ZERO DECISION (true zero iff `zero`)
                    LET r == [lv[t] EXCEPT !.grp = g, !.o = ns, !.dec = zero, !.win = {}] IN
                    IF LeaveNew(ns) = ns
                      THEN GoSet(t, WakePc(ns), WakeLv(r, ns))       \* break: nothing to clear
                      ELSE Set(t, r) /\ Go(t, "lv_cas")
               ELSE UNCHANGED <<pc, lv>>
    /\ UNCHANGED <<ntail, nhead, nnext, futexQ, spur, pushed, regd, before, fired, ran,
                   waitRes, earlyF2, earlyOther>>
\* os_atomic_cmpxchgv2o(dg, dg_state, old_state, new_state, &old_state, relaxed)
LeaveCasOk(t) ==
    /\ pc[t] = "lv_cas" /\ st[G(t)] = lv[t].o
    /\ st' = [st EXCEPT ![G(t)] = LeaveNew(lv[t].o)]
    /\ GoSet(t, WakePc(lv[t].o), WakeLv(lv[t], lv[t].o))   \* wake gets the value BEFORE the CAS
    /\ UNCHANGED <<ntail, nhead, nnext, futexQ, ip, spur, cur, outstanding, own, tasks, pushed, regd, before,
                   zeroAfter, fired, ran, zeroSeen, waitRes, earlyF2, earlyOther>>
LeaveCasFail(t) ==
    /\ pc[t] = "lv_cas" /\ st[G(t)] # lv[t].o
    /\ LET s == st[G(t)]
           r == [lv[t] EXCEPT !.o = s] IN              \* old_state reloaded by the failed CAS
       IF LeaveNew(s) = s
         THEN GoSet(t, WakePc(s), WakeLv(r, s))
         ELSE Set(t, r) /\ Go(t, "lv_cas")
    /\ UNCHANGED <<st, ntail, nhead, nnext, futexQ, ip, spur, cur, outstanding, own, tasks, pushed, regd, before,
                   zeroAfter, fired, ran, zeroSeen, waitRes, earlyF2, earlyOther>>

(* --------------------------- _dispatch_group_notify --------------------------- *)
\* prev = os_mpsc_push_update_tail(): dsn->do_next = NULL (private), xchg(dg_notify_tail, dsn, release)
NotifyXchg(t, n) ==
    /\ pc[t] = "nf_xchg" /\ n \in NIds \ PushedAll
    /\ ntail' = [ntail EXCEPT ![G(t)] = n] /\ nnext' = [nnext EXCEPT ![n] = 0]
    /\ pushed' = [pushed EXCEPT ![G(t)] = @ \cup {n}]
    /\ before' = [before EXCEPT ![n] = lv[t].bef]
    \* every thread between its zero decision (on this group) and its snapshot sees n entering its window
    /\ lv' = [u \in Threads |->
               IF u = t THEN [lv[t] EXCEPT !.n = n, !.prev = ntail[G(t)],
                                           !.win = IF lv[t].dec THEN @ \cup {n} ELSE @]
               ELSE IF lv[u].dec /\ lv[u].grp = G(t) THEN [lv[u] EXCEPT !.win = @ \cup {n}] ELSE lv[u]]
    /\ Go(t, "nf_link")
    /\ UNCHANGED <<st, nhead, futexQ, ip, spur, cur, outstanding, own, tasks, regd, zeroAfter, fired, ran, zeroSeen,
                   waitRes, earlyF2, earlyOther>>
\* os_mpsc_push_update_prev(): prev->do_next = dsn, or dg_notify_head = dsn when the list was empty
NotifyLink(t) ==
    /\ pc[t] = "nf_link"
    /\ IF lv[t].prev = 0
         THEN nhead' = [nhead EXCEPT ![G(t)] = lv[t].n] /\ nnext' = nnext /\ regd' = regd
         ELSE /\ nnext' = [nnext EXCEPT ![lv[t].prev] = lv[t].n] /\ nhead' = nhead
              /\ regd' = Reg(lv[t].n)
    /\ GoSet(t, IF lv[t].prev = 0 THEN "nf_load" ELSE "idle", lv[t])
    /\ UNCHANGED <<st, ntail, futexQ, ip, spur, cur, outstanding, own, tasks, pushed, before,
                   zeroAfter, fired, ran, zeroSeen, waitRes, earlyF2, earlyOther>>
\* body of the rmw loop on the value o just read from dg_state
\* if ((uint32_t)old_state == 0) give up and _dispatch_group_wake(dg, old_state | HAS_NOTIFS, false)
NotifyFiresNow(o) == o.nv = 0 /\ o.hn = 0 /\ o.hw = 0
NotifyDecide(t, o) ==
    IF NotifyFiresNow(o)
      THEN \* ZERO DECISION (a true zero: the count read is 0)
           /\ Set(t, WakeLv([lv[t] EXCEPT !.o = o, !.dec = TRUE, !.win = {}], [o EXCEPT !.hn = 1]))
           /\ Go(t, "wk_head") /\ regd' = Reg(lv[t].n)
      ELSE IF Mut = "notify_nobit"
             THEN GoSet(t, "idle", lv[t]) /\ regd' = Reg(lv[t].n)
             ELSE Set(t, [lv[t] EXCEPT !.o = o]) /\ Go(t, "nf_cas") /\ regd' = regd
NotifyLoad(t) ==
    /\ pc[t] = "nf_load" /\ NotifyDecide(t, st[G(t)])
    /\ UNCHANGED <<st, ntail, nhead, nnext, futexQ, ip, spur, cur, outstanding, own, tasks, pushed, before,
                   zeroAfter, fired, ran, zeroSeen, waitRes, earlyF2, earlyOther>>
NotifyCasOk(t) ==
    /\ pc[t] = "nf_cas" /\ st[G(t)] = lv[t].o
    /\ st' = [st EXCEPT ![G(t)].hn = 1] /\ GoSet(t, "idle", lv[t]) /\ regd' = Reg(lv[t].n)
    /\ UNCHANGED <<ntail, nhead, nnext, futexQ, ip, spur, cur, outstanding, own, tasks, pushed, before,
                   zeroAfter, fired, ran, zeroSeen, waitRes, earlyF2, earlyOther>>
NotifyCasFail(t) ==
    /\ pc[t] = "nf_cas" /\ st[G(t)] # lv[t].o /\ NotifyDecide(t, st[G(t)])
    /\ UNCHANGED <<st, ntail, nhead, nnext, futexQ, ip, spur, cur, outstanding, own, tasks, pushed, before,
                   zeroAfter, fired, ran, zeroSeen, waitRes, earlyF2, earlyOther>>

(* ----------------------------- dispatch_group_wait ----------------------------- *)
RetWait(t, res, r) == /\ GoSet(t, "idle", r) /\ waitRes' = [waitRes EXCEPT ![t] = res]
\* body of the rmw loop on the value o just read
WaitDecide(t, o) ==
    IF o.nv = 0 THEN RetWait(t, "ok", lv[t])                                  \* give up with acquire fence: return 0
    ELSE IF lv[t].kind = "now"                                                \* timeout == 0: return TIMEOUT
      THEN RetWait(t, "timeout", [lv[t] EXCEPT !.tmo = TRUE])
    ELSE IF o.hw = 1                                                          \* bit already set: give up (break)
      THEN Go(t, "w_fcall") /\ Set(t, [lv[t] EXCEPT !.o = o, !.g = o.gen]) /\ waitRes' = waitRes
    ELSE Go(t, "w_cas") /\ Set(t, [lv[t] EXCEPT !.o = o]) /\ waitRes' = waitRes
WaitLoad(t) ==
    /\ pc[t] = "w_load" /\ WaitDecide(t, st[G(t)])
    /\ UNCHANGED <<st, ntail, nhead, nnext, futexQ, ip, spur, cur, outstanding, own, tasks, pushed, regd, before,
                   zeroAfter, fired, ran, zeroSeen, earlyF2, earlyOther>>
WaitCasOk(t) ==
    /\ pc[t] = "w_cas" /\ st[G(t)] = lv[t].o
    /\ st' = [st EXCEPT ![G(t)].hw = 1]
    /\ Set(t, [lv[t] EXCEPT !.g = st[G(t)].gen]) /\ Go(t, "w_fcall")       \* gen = _dg_state_gen(new_state)
    /\ UNCHANGED <<ntail, nhead, nnext, futexQ, ip, spur, cur, outstanding, own, tasks, pushed, regd, before,
                   zeroAfter, fired, ran, zeroSeen, waitRes, earlyF2, earlyOther>>
WaitCasFail(t) ==
    /\ pc[t] = "w_cas" /\ st[G(t)] # lv[t].o /\ WaitDecide(t, st[G(t)])
    /\ UNCHANGED <<st, ntail, nhead, nnext, futexQ, ip, spur, cur, outstanding, own, tasks, pushed, regd, before,
                   zeroAfter, fired, ran, zeroSeen, earlyF2, earlyOther>>
\* _dispatch_wait_on_address(&dg->dg_gen, gen, timeout): _dispatch_timeout(timeout) == 0 -> ETIMEDOUT
\* without a kernel call (the full timeout has elapsed; real time is not modelled)
WaitElapsed(t) ==
    /\ pc[t] = "w_fcall" /\ lv[t].kind = "timed"
    /\ Set(t, [lv[t] EXCEPT !.tmo = TRUE, !.rc = "timedout"]) /\ Go(t, "w_gload")
    /\ UNCHANGED <<st, ntail, nhead, nnext, futexQ, ip, spur, cur, outstanding, own, tasks, pushed, regd, before,
                   zeroAfter, fired, ran, zeroSeen, waitRes, earlyF2, earlyOther>>
\* ... otherwise syscall(SYS_futex, &dg_gen, FUTEX_WAIT, gen, ts); kernel: *uaddr == val -> sleep
FutexSleep(t) ==
    /\ pc[t] = "w_fcall" /\ st[G(t)].gen = lv[t].g
    /\ futexQ' = [futexQ EXCEPT ![G(t)] = @ \cup {t}] /\ Go(t, "w_sleep")
    /\ UNCHANGED <<st, ntail, nhead, nnext, lv, ip, spur, cur, outstanding, own, tasks, pushed, regd, before,
                   zeroAfter, fired, ran, zeroSeen, waitRes, earlyF2, earlyOther>>
\* kernel: *uaddr != val -> EWOULDBLOCK
FutexAgain(t) ==
    /\ pc[t] = "w_fcall" /\ st[G(t)].gen # lv[t].g
    /\ Set(t, [lv[t] EXCEPT !.rc = "again"]) /\ Go(t, "w_gload")
    /\ UNCHANGED <<st, ntail, nhead, nnext, futexQ, ip, spur, cur, outstanding, own, tasks, pushed, regd, before,
                   zeroAfter, fired, ran, zeroSeen, waitRes, earlyF2, earlyOther>>
\* woken by FUTEX_WAKE
FutexWoken(t) ==
    /\ pc[t] = "w_sleep" /\ t \notin futexQ[G(t)]
    /\ Set(t, [lv[t] EXCEPT !.rc = "ok"]) /\ Go(t, "w_gload")
    /\ UNCHANGED <<st, ntail, nhead, nnext, futexQ, ip, spur, cur, outstanding, own, tasks, pushed, regd, before,
                   zeroAfter, fired, ran, zeroSeen, waitRes, earlyF2, earlyOther>>
\* spurious wake-up / EINTR
FutexSpurious(t) ==
    /\ pc[t] = "w_sleep" /\ t \in futexQ[G(t)] /\ (MaxSpur < 0 \/ spur < MaxSpur)
    /\ futexQ' = [futexQ EXCEPT ![G(t)] = @ \ {t}] /\ spur' = IF MaxSpur < 0 THEN spur ELSE spur + 1
    /\ Set(t, [lv[t] EXCEPT !.rc = "ok"]) /\ Go(t, "w_gload")
    /\ UNCHANGED <<st, ntail, nhead, nnext, ip, cur, outstanding, own, tasks, pushed, regd, before,
                   zeroAfter, fired, ran, zeroSeen, waitRes, earlyF2, earlyOther>>
\* ETIMEDOUT: the timeout step
FutexTimeout(t) ==
    /\ pc[t] = "w_sleep" /\ lv[t].kind = "timed"
    /\ futexQ' = [futexQ EXCEPT ![G(t)] = @ \ {t}]
    /\ Set(t, [lv[t] EXCEPT !.tmo = TRUE, !.rc = "timedout"]) /\ Go(t, "w_gload")
    /\ UNCHANGED <<st, ntail, nhead, nnext, ip, spur, cur, outstanding, own, tasks, pushed, regd, before,
                   zeroAfter, fired, ran, zeroSeen, waitRes, earlyF2, earlyOther>>
\* if (gen != os_atomic_load2o(dg, dg_gen, acquire)) return 0; if (rc == ETIMEDOUT) return TIMEOUT;
WaitGenLoad(t) ==
    /\ pc[t] = "w_gload"
    /\ LET gen == st[G(t)].gen
           changed == IF Mut = "wait_nogen" THEN (gen # lv[t].g \/ lv[t].rc = "ok")
                                            ELSE gen # lv[t].g
       IN IF changed THEN RetWait(t, "ok", lv[t])
          ELSE IF lv[t].rc = "timedout" THEN RetWait(t, "timeout", lv[t])
          ELSE Go(t, "w_fcall") /\ waitRes' = waitRes /\ lv' = lv
    /\ UNCHANGED <<st, ntail, nhead, nnext, futexQ, ip, spur, cur, outstanding, own, tasks, pushed, regd, before,
                   zeroAfter, fired, ran, zeroSeen, earlyF2, earlyOther>>

\* the notification block runs on its queue (environment; used by trace validation only)
NotifyRan(n) ==
    /\ n \in NIds /\ fired[n] >= 1
    /\ ran' = [ran EXCEPT ![n] = @ + 1]
    /\ UNCHANGED <<st, ntail, nhead, nnext, futexQ, pc, lv, ip, spur, cur, outstanding, own, tasks, pushed, regd,
                   before, zeroAfter, fired, zeroSeen, waitRes, earlyF2, earlyOther>>

\* model checking: notifier identities are allocated in push order
MinFree == CHOOSE m \in NIds \ PushedAll : \A k \in NIds \ PushedAll : m <= k
Lib(t) == \/ LeaveCasOk(t) \/ LeaveCasFail(t)
          \/ WakeGetHead(t) \/ WakeHeadClear(t) \/ WakeTailXchg(t) \/ WakeGetNext(t) \/ WakeSubmit(t)
          \/ WakeFutex(t)
          \/ (NIds \ PushedAll # {} /\ NotifyXchg(t, MinFree))
          \/ NotifyLink(t) \/ NotifyLoad(t) \/ NotifyCasOk(t) \/ NotifyCasFail(t)
          \/ WaitLoad(t) \/ WaitCasOk(t) \/ WaitCasFail(t) \/ WaitElapsed(t)
          \/ FutexSleep(t) \/ FutexAgain(t) \/ FutexWoken(t) \/ FutexSpurious(t) \/ FutexTimeout(t)
          \/ WaitGenLoad(t)

(* ------------------------ client of the model-checking runs ------------------------ *)
\* an operation is <<kind, group, body>>; body = index in Bodies of what the block of an "async" does (0: nothing)
Kinds == {"enter", "leave", "async", "notify", "wait", "waitT", "waitN", "skip"}
\* what the block of a dispatch_group_async does, as a sequence of nested operations ("O": on the other group)
Bodies == << <<"asyncO">>,                       \* 1: dispatch_group_async(B, ...) from inside an item of A
             <<"enterO", "leaveO">>,             \* 2: enter(B) ... leave(B)
             <<"notifyO">>,                      \* 3: dispatch_group_notify(B, ...)
             <<"asyncS", "asyncO">>,             \* 4: same group first, then the other one
             <<"asyncO", "notifyS">> >>          \* 5
\* tokens: 1000 * body + 100 * thread + position for the clients' work, 10000 + ... for nested work (empty body)
BodyOf(tk) == IF tk >= 10000 \/ tk < 1000 THEN <<>> ELSE Bodies[tk \div 1000]
Other(g) == IF Groups = {g} THEN g ELSE CHOOSE h \in Groups : h # g
NotifyRoom == /\ NIds \ PushedAll # {}
              /\ Cardinality({u \in Threads : pc[u] = "nf_xchg"}) < Cardinality(NIds \ PushedAll)
Advance(t) == ip' = [ip EXCEPT ![t] = @ + 1]
SkipOp == UNCHANGED <<st, ntail, nhead, nnext, futexQ, pc, lv, spur, cur, outstanding, own, tasks,
                      pushed, regd, before, zeroAfter, fired, ran, zeroSeen, waitRes, earlyF2, earlyOther>>
Call(t) ==
    /\ pc[t] = "idle" /\ t \notin Workers /\ ip[t] <= Len(Prog[t])
    /\ \E op \in Prog[t][ip[t]] :
         LET k == op[1]
             g == op[2]
         IN CASE k = "enter"  -> Enter(t, g, 100 * t + ip[t], FALSE)
              [] k = "async"  -> Workers # {} /\ Enter(t, g, 1000 * op[3] + 100 * t + ip[t], TRUE)
              [] k = "leave"  -> \E tk \in own[g][t] : Leave(t, g, tk)
              [] k = "notify" -> NotifyRoom /\ CallNotify(t, g)
              [] k = "wait"   -> CallWait(t, g, "forever")
              [] k = "waitT"  -> CallWait(t, g, "timed")
              [] k = "waitN"  -> CallWait(t, g, "now")
              [] k = "skip"   -> SkipOp
    /\ Advance(t)
\* a worker runs the block of some dispatch_group_async: callout start, the nested operations of its body (each a
\* complete call: the worker's Lib steps bring it back to idle), callout end, the library's leave
WorkStart(t) ==
    /\ \E g \in Groups : \E tk \in tasks[g] : ItemStartD(t, g, tk, BodyOf(tk) = <<>>)
    /\ ip' = [ip EXCEPT ![t] = 1]
WorkOp(t) ==
    /\ pc[t] = "idle" /\ cur[t].tk # 0 /\ ~cur[t].done /\ ip[t] <= Len(BodyOf(cur[t].tk))
    /\ LET op == BodyOf(cur[t].tk)[ip[t]]
           g == cur[t].g
           h == Other(cur[t].g)
           ntk == 10000 + 10 * (cur[t].tk % 1000) + ip[t]
       IN CASE op = "asyncO"  -> Enter(t, h, ntk, TRUE)
            [] op = "asyncS"  -> Enter(t, g, ntk, TRUE)
            [] op = "enterO"  -> Enter(t, h, ntk, FALSE)
            [] op = "leaveO"  -> \E tk \in own[h][t] : Leave(t, h, tk)
            \* (no continuation identity left in the model: this block does not notify)
            [] op = "notifyO" -> IF NotifyRoom THEN CallNotify(t, h) ELSE SkipOp
            [] op = "notifyS" -> IF NotifyRoom THEN CallNotify(t, g) ELSE SkipOp
    /\ Advance(t)
WorkEnd(t) ==
    /\ cur[t].tk # 0 /\ ip[t] > Len(BodyOf(cur[t].tk)) /\ ItemEnd(t, cur[t].tk) /\ UNCHANGED ip
WorkLeave(t) ==
    /\ cur[t].tk # 0 /\ cur[t].done
    /\ Leave(t, IF MutData THEN cur[t].data ELSE cur[t].g, cur[t].tk) /\ UNCHANGED ip
Work(t) == t \in Workers /\ (WorkStart(t) \/ WorkOp(t) \/ WorkEnd(t) \/ WorkLeave(t))

Step(t) == Call(t) \/ Work(t) \/ (Lib(t) /\ UNCHANGED ip)
Next == \E t \in Threads : Step(t)
Spec == Init /\ [][Next]_vars
\* fairness on library steps and on workers (asynchronous work finishes); clients need not call
FairSpec == Spec /\ \A t \in Threads : WF_vars((Lib(t) /\ UNCHANGED ip) \/ Work(t))

(* --------------------------------- properties (C07) --------------------------------- *)
Held(g) == tasks[g] \cup UNION {own[g][t] : t \in Threads}
TypeOK == /\ \A g \in Groups :
               /\ st[g].nv \in 0..(VMOD - 1) /\ st[g].hn \in {0, 1} /\ st[g].hw \in {0, 1} /\ st[g].gen \in Nat
               /\ ntail[g] \in NIds \cup {0} /\ nhead[g] \in NIds \cup {0}
               /\ futexQ[g] \subseteq Threads
               /\ \A t \in futexQ[g] : pc[t] = "w_sleep" /\ G(t) = g
               \* conservation, per group: the word counts exactly the enters not yet matched by a leave ON THIS
               \* GROUP, and each of those is work somebody still holds (so it will be left, on this group)
               /\ Count(st[g].nv) = Cardinality(outstanding[g])
               /\ outstanding[g] = Held(g)
          /\ \A t \in Threads : cur[t].tk # 0 => cur[t].g \in Groups /\ cur[t].tk \in tasks[cur[t].g]

\* wait returns zero only if at some moment during the call every enter had been matched by a leave
WaitOkImpliesZero == \A t \in Threads : waitRes[t] = "ok" => zeroSeen[t]
\* ... and non-zero only after the timeout step
TimeoutOnlyAfterTimeout == \A t \in Threads : waitRes[t] = "timeout" => lv[t].tmo

\* every notify block is submitted (at most) once -- exactly once together with NothingLeft/Notified
NotifyOnce == \A n \in NIds : fired[n] <= 1 /\ ran[n] <= fired[n]
\* not before all work entered before the notify call has left: THE PROPERTY AS STATED
NotifyNotEarly == ~earlyF2 /\ ~earlyOther
\* the same minus the known finding F2 (a notifier pushed between a zero decision and the list snapshot)
NotifyNotEarlyExceptF2 == ~earlyOther
\* a submitted notifier was pushed
FiredWasPushed == \A n \in NIds : fired[n] > 0 => n \in PushedAll

\* nothing is left behind when the count reaches zero: whenever no call is in progress except
\* waiters asleep in the kernel, no sleeper's generation has passed (the count has not returned to zero
\* since the waiter published itself) and no notifier that saw a zero is unfired
Asleep(t) == pc[t] = "w_sleep" /\ t \in futexQ[G(t)]
Quiet == \A t \in Threads : pc[t] = "idle" \/ Asleep(t)
NothingLeft == Quiet => \A g \in Groups :
                        /\ \A t \in Threads : (Asleep(t) /\ G(t) = g) => st[g].gen = lv[t].g
                        /\ (Count(st[g].nv) = 0 => /\ st[g].hn = 0 /\ st[g].hw = 0 /\ ntail[g] = 0 /\ futexQ[g] = {}
                                                   /\ \A n \in pushed[g] : fired[n] >= 1)
\* stricter reading, reported but NOT judged (see tools/props/C07.py): a notifier whose notify call had
\* returned is fired for the first zero transition that follows, not for a later one
NoMissedZero == Quiet => \A n \in regd : zeroAfter[n] => fired[n] >= 1
\* progress as a safety condition (the state graph of a finite client is acyclic but for CAS retries, which
\* need another thread's step): when every thread is idle or blocked, the only blocked threads are
\* legitimate sleepers -- nobody spins for an enqueuer that does not exist
Blocked(t) == \/ pc[t] = "wk_head" /\ nhead[G(t)] = 0
              \/ pc[t] = "wk_next" /\ nnext[lv[t].dc] = 0
              \/ Asleep(t)
StuckFree == (\A t \in Threads : pc[t] = "idle" \/ Blocked(t)) => (\A t \in Threads : Blocked(t) => Asleep(t))
\* reusable: at every quiescent zero the group is exactly a new group but for the generation
Reusable == Quiet => \A g \in Groups : Count(st[g].nv) = 0 =>
                        (st[g].nv = 0 /\ st[g].hn = 0 /\ st[g].hw = 0 /\ ntail[g] = 0 /\ nhead[g] = 0)

\* liveness under fairness
CallsTerminate == \A t \in Threads : (pc[t] # "idle" /\ ~InWait(t)) ~> (pc[t] = "idle")
InSlow(t) == pc[t] \in {"w_fcall", "w_sleep", "w_gload"}
WaitersReleased == \A t \in Threads :
    /\ (pc[t] \in {"w_load", "w_cas"}) ~> (pc[t] \notin {"w_load", "w_cas"})
    /\ (InSlow(t) /\ (st[G(t)].gen # lv[t].g \/ lv[t].kind = "timed")) ~> (pc[t] = "idle")
\* a pushed notifier does not stay unsubmitted while the count stays at zero
Notified == \A g \in Groups : \A n \in NIds :
    (n \in pushed[g] /\ Count(st[g].nv) = 0) ~> (fired[n] >= 1 \/ Count(st[g].nv) # 0)
\* dispatch_group_async work is run and left: every group drains
Drains == \A g \in Groups : (tasks[g] # {}) ~> (tasks[g] = {})

\* reachability witnesses used by the check for non-vacuity of the bounds (expected to be VIOLATED)
NeverTwoGenerations == \A g \in Groups : st[g].gen < 2
NeverF2 == ~earlyF2
\* an item of one group has work of ANOTHER group outstanding that it submitted itself, at its end
NeverCrossGroup == \A t \in Threads : ~(cur[t].done /\ \E g \in Groups \ {cur[t].g} : \E tk \in tasks[g] : tk >= 10000)
=============================================================================
