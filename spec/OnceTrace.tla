----------------------------- MODULE OnceTrace -----------------------------
(* Trace validation: a recorded execution of the real dispatch_once / dispatch_once_f
   (hooked build, harness/drv_once.c) must be a behaviour of Once.tla.
   Every record is bound to one spec action of the recording thread with all logged
   fields compared (projected old and new gate word, success flag, futex value, futex rc).
   Silent steps, i.e. what cannot be hooked:
     - the plain read of the predicate in the header's inline fast path (FastRead);
     - the kernel side of the futex calls: the probes are logged before the system call
       (futex_wait, futex_wake) and after it returned (futex_wait_ret); the atomic
       compare-and-enqueue and the wake-all happen somewhere in between (FutexWaitEnter,
       FutexWake), a spurious/EINTR end of the sleep likewise (Spurious, Eintr).
   Memory-order tokens are compared with the spec's transcription (Once!MO).  On this TSO
   machine a difference in the order alone cannot change behaviour (DESIGN 5.6): it is
   printed as MO_DRIFT and reported by the runner, the record is still followed. *)
EXTENDS Once, Json, IOUtils, TLCExt, Sequences

Tr == ndJsonDeserialize(IOEnv.TRACE)
\* record 1 is a header written by the runner: {"e":"Header","nt":<number of threads>}
TraceThreads == 0..(Tr[1].nt - 1)
TraceNoOwner == -1

VARIABLES l,        \* next record
          called    \* threads whose futex probe is logged but whose kernel step is still to come
tvars == <<vars, l, called>>

TInit == Init /\ l = 2 /\ called = {} /\ TLCSet(1, 0)

Rec == Tr[l]
Ev(e) == l <= Len(Tr) /\ Rec.e = e
Consume == l' = l + 1
Thr == Rec.t
\* the projected word of a record; own = -2 / st = "X" (not a gate value) never match
G(j) == [st |-> j.st, own |-> j.own, w |-> (j.w = 1)]
MoChk(key) == IF Rec.mo = MO[key] THEN TRUE
              ELSE PrintT(<<"MO_DRIFT", key, MO[key], Rec.mo, Rec.site>>)

TReset ==
    /\ Ev("Reset") /\ Consume
    /\ AllIdle /\ sleepers = {} /\ called = {}   \* an execution ends with every call returned
    /\ gate' = Unlocked /\ sleepers' = {}
    /\ pc' = [t \in Threads |-> "idle"]
    /\ old' = [t \in Threads |-> Unlocked]
    /\ exp' = [t \in Threads |-> Unlocked]
    /\ frc' = [t \in Threads |-> 0]
    /\ calls' = [t \in Threads |-> 0]
    /\ late' = [t \in Threads |-> FALSE]
    /\ initCount' = 0 /\ initDone' = 0 /\ returned' = {}
    /\ called' = {}

TCall == Ev("CallOnce") /\ Consume /\ CallOnce(Thr, Rec.kind) /\ UNCHANGED called
\* the API call returned: the spec thread must be back to idle (and is in `returned`)
TRet  == /\ Ev("RetOnce") /\ Consume /\ pc[Thr] = "idle" /\ Thr \in returned /\ calls[Thr] > 0
         /\ UNCHANGED <<vars, called>>
TInitStart == Ev("InitStart") /\ Consume /\ InitStart(Thr) /\ UNCHANGED called
TInitEnd   == Ev("InitEnd") /\ Consume /\ InitEnd(Thr) /\ UNCHANGED called

\* a compare-and-swap on the gate: whichever CAS action this thread can take at its pc
TCas == /\ Ev("Cas") /\ Consume /\ UNCHANGED called
        /\ gate = G(Rec.old) /\ gate' = G(Rec.new)
        /\ IF Rec.ok = 1
             THEN \/ TryEnterOk(Thr) /\ MoChk("tryenter")
                  \/ WCasOk(Thr) /\ MoChk("wcas")
             ELSE \/ TryEnterFail(Thr) /\ MoChk("tryenter")
                  \/ WCasFail(Thr) /\ MoChk("wcas")
TXchg == /\ Ev("Xchg") /\ Consume /\ UNCHANGED called
         /\ gate = G(Rec.old) /\ gate' = G(Rec.new)
         /\ BXchg(Thr) /\ MoChk("done")
TLoad == /\ Ev("Load") /\ Consume /\ UNCHANGED called
         /\ gate = G(Rec.old)
         /\ WLoad(Thr) /\ MoChk("wload")
TGiveup == Ev("Giveup") /\ Consume /\ UNCHANGED called /\ Giveup(Thr) /\ MoChk("giveup")

\* futex probes: the call is about to be made / has returned
TFutexWait == /\ Ev("FutexWait") /\ Consume
              /\ pc[Thr] = "w_futex" /\ Thr \notin called
              /\ exp[Thr] = G(Rec.val) /\ Rec.timed = 0
              /\ called' = called \cup {Thr} /\ UNCHANGED vars
TFutexWaitRet == /\ Ev("FutexWaitRet") /\ Consume
                 /\ pc[Thr] = "w_fret" /\ frc[Thr] = Rec.rc
                 /\ FutexRet(Thr) /\ UNCHANGED called
TFutexWake == /\ Ev("FutexWake") /\ Consume
              /\ pc[Thr] = "b_wake" /\ Thr \notin called /\ Rec.all = 1
              /\ called' = called \cup {Thr} /\ UNCHANGED vars

\* silent steps
TSilent ==
    /\ l <= Len(Tr) /\ UNCHANGED l
    /\ \/ \E t \in Threads : FastRead(t) /\ UNCHANGED called
       \/ \E t \in called : (FutexWaitEnter(t) \/ FutexWake(t)) /\ called' = called \ {t}
       \* a sleeper does nothing until it returns, so an unprovoked end of its sleep can be
       \* placed immediately before its futex_wait_ret record without losing behaviours
       \/ /\ Rec.e = "FutexWaitRet" /\ Rec.t \in sleepers
          /\ (Spurious(Rec.t) \/ Eintr(Rec.t)) /\ UNCHANGED called

TNext == TReset \/ TCall \/ TRet \/ TInitStart \/ TInitEnd \/ TCas \/ TXchg \/ TLoad \/ TGiveup
         \/ TFutexWait \/ TFutexWaitRet \/ TFutexWake \/ TSilent

TSpec == TInit /\ [][TNext]_tvars

\* longest matched prefix, reported on rejection
MaxL == IF TLCGet(1) < l THEN TLCSet(1, l) ELSE TRUE
Accepted == l > Len(Tr)
\* evaluated in every reached state: stop at the first accepting state
StopWhenAccepted == Accepted => (PrintT("TRACE_ACCEPTED") /\ TLCSet("exit", TRUE))
Post == PrintT(<<"MAXL", TLCGet(1), Len(Tr)>>)
=============================================================================
