------------------------------- MODULE Once -------------------------------
(* dispatch_once / dispatch_once_f on Linux x86-64
   (DISPATCH_ONCE_INLINE_FASTPATH = 1, DISPATCH_ONCE_USE_QUIESCENT_COUNTER = 0, HAVE_FUTEX = 1).
   One action per shared-memory access / kernel call of the implementation:

     dispatch/once.h  _dispatch_once, _dispatch_once_f (inline, in the CALLER's code):
         if (predicate[0] != ~0l) dispatch_once_f(...); else compiler_barrier        FastRead
     src/once.c       dispatch_once_f:
         (no acquire load here: that block is compiled out when the inline fast path exists)
         _dispatch_once_gate_tryenter: cmpxchg(dgo_once, 0 -> self, relaxed)        TryEnterOk/Fail
         _dispatch_once_callout: _dispatch_client_callout(ctxt, func)               InitStart, InitEnd
         _dispatch_once_gate_broadcast: v = xchg(dgo_once, DONE, release);          BXchg
              if ((dispatch_lock)v == self) return;
              _dispatch_gate_broadcast_slow: crash unless owned by self; futex_wake(INT_MAX)   FutexWake
     src/shims/lock.c _dispatch_once_wait: for (;;) {
         os_atomic_rmw_loop(dgo_once, old_v, new_v, relaxed, {                      WLoad
             if (old_v == DONE) give_up(return);                                    Giveup (relaxed fence)
             new_v = old_v | WAITERS_BIT; if (new_v == old_v) give_up(break);       Giveup
         });                                                                        WCasOk / WCasFail (weak CAS)
         _dispatch_futex_wait(lock, new_v)  -- kernel: atomically compare and sleep FutexWaitEnter, FutexRet
       }
   The futex word is the low 32 bits of dgo_once; DONE (~0) differs there from every
   owner|WAITERS value because tids are < 2^30, so the comparison is modelled on the whole
   projected word.  A futex wait may end spuriously, and a signal makes the kernel re-evaluate
   the comparison (EINTR is retried inside _futex_blocking_op): environment steps, never fair.

   Property C09 is stated on the ghost variables initCount, initDone, returned, late. *)
EXTENDS Integers, FiniteSets, TLC

CONSTANTS Threads,          \* client threads
          NoOwner,          \* value of the owner field when the word holds no tid
          MaxCalls,         \* bound on API calls per thread (model checking only)
          Mut,              \* "none" or the name of a spec mutation (non-vacuity runs)
          WeakCasSpurious   \* TRUE: the weak CAS of the rmw loop may fail although the value matches

Kinds == {"inline", "direct"}   \* through the header's inline fast path | straight into dispatch_once_f

\* memory-order tokens as written in the code (compared with every trace record; TLA+ itself is SC)
MO == [tryenter |-> "relaxed", done |-> "release", wload |-> "relaxed", wcas |-> "relaxed",
       giveup |-> "relaxed"]

EAGAIN == 11

VARIABLES gate,       \* dgo_once: [st: "U" unlocked(0) | "L" owner tid | "D" done(~0), own, w: waiters bit]
          sleepers,   \* threads enqueued in the kernel on the futex word
          pc,         \* per thread control point
          old,        \* per thread: old_v of the rmw loop
          exp,        \* per thread: value passed to futex_wait
          frc,        \* per thread: return code of the last futex_wait
          calls,      \* per thread: API calls started
          late,       \* ghost, per thread: the call in progress started after DONE was published
          initCount,  \* ghost: initialiser executions started
          initDone,   \* ghost: initialiser executions completed
          returned    \* ghost: threads that returned from at least one call

vars == <<gate, sleepers, pc, old, exp, frc, calls, late, initCount, initDone, returned>>

Unlocked == [st |-> "U", own |-> NoOwner, w |-> FALSE]
Done     == [st |-> "D", own |-> NoOwner, w |-> FALSE]
Locked(t, w) == [st |-> "L", own |-> t, w |-> w]
WithWaiters(v) == [v EXCEPT !.w = TRUE]      \* old_v | DLOCK_WAITERS_BIT

Init == /\ gate = Unlocked /\ sleepers = {}
        /\ pc = [t \in Threads |-> "idle"]
        /\ old = [t \in Threads |-> Unlocked]
        /\ exp = [t \in Threads |-> Unlocked]
        /\ frc = [t \in Threads |-> 0]
        /\ calls = [t \in Threads |-> 0]
        /\ late = [t \in Threads |-> FALSE]
        /\ initCount = 0 /\ initDone = 0 /\ returned = {}

Go(t, l) == pc' = [pc EXCEPT ![t] = l]
Return(t) == Go(t, "idle") /\ returned' = returned \cup {t}

(* ------------------------------ API entry ------------------------------ *)
CallOnce(t, k) ==
    /\ pc[t] = "idle"
    /\ Go(t, IF k = "inline" THEN "fp_read" ELSE "tryenter")
    /\ calls' = [calls EXCEPT ![t] = @ + 1]
    /\ late' = [late EXCEPT ![t] = (gate.st = "D")]
    /\ UNCHANGED <<gate, sleepers, old, exp, frc, initCount, initDone, returned>>

(* ------------------- dispatch/once.h: inline fast path ------------------- *)
\* plain read of *predicate (not an os_atomic: a silent step in traces)
FastRead(t) ==
    /\ pc[t] = "fp_read"
    /\ IF gate.st = "D" THEN Return(t) ELSE Go(t, "tryenter") /\ UNCHANGED returned
    /\ UNCHANGED <<gate, sleepers, old, exp, frc, calls, late, initCount, initDone>>

(* ----------------------------- dispatch_once_f ----------------------------- *)
\* os_atomic_cmpxchg(&l->dgo_once, DLOCK_ONCE_UNLOCKED, self, relaxed)
TryEnterWins == IF Mut = "tryenter_nonzero" THEN gate.st # "D" ELSE gate = Unlocked
TryEnterOk(t) ==
    /\ pc[t] = "tryenter" /\ TryEnterWins
    /\ gate' = IF Mut = "done_before_callout" THEN Done ELSE Locked(t, FALSE)
    /\ Go(t, "callout")
    /\ UNCHANGED <<sleepers, old, exp, frc, calls, late, initCount, initDone, returned>>
TryEnterFail(t) ==
    /\ pc[t] = "tryenter" /\ ~TryEnterWins
    /\ Go(t, "w_load")
    /\ UNCHANGED <<gate, sleepers, old, exp, frc, calls, late, initCount, initDone, returned>>

\* _dispatch_client_callout(ctxt, func): the initialiser starts ... and completes
InitStart(t) ==
    /\ pc[t] = "callout" /\ Go(t, "in_init")
    /\ initCount' = initCount + 1
    /\ UNCHANGED <<gate, sleepers, old, exp, frc, calls, late, initDone, returned>>
InitEnd(t) ==
    /\ pc[t] = "in_init" /\ Go(t, "b_xchg")
    /\ initDone' = initDone + 1
    /\ UNCHANGED <<gate, sleepers, old, exp, frc, calls, late, initCount, returned>>

\* v = os_atomic_xchg(&dgo->dgo_once, DLOCK_ONCE_DONE, release); if ((dispatch_lock)v == self) return;
\* _dispatch_gate_broadcast_slow: if (!_dispatch_lock_is_locked_by_self(cur)) DISPATCH_CLIENT_CRASH
NoWakeNeeded(v, t) == IF Mut = "bcast_nowake" THEN v.st = "L" /\ v.own = t
                                              ELSE v = Locked(t, FALSE)
BXchg(t) ==
    /\ pc[t] = "b_xchg"
    /\ gate' = Done
    /\ IF NoWakeNeeded(gate, t) THEN Return(t)
       ELSE /\ Go(t, IF gate.st = "L" /\ gate.own = t THEN "b_wake" ELSE "crashed")
            /\ UNCHANGED returned
    /\ UNCHANGED <<sleepers, old, exp, frc, calls, late, initCount, initDone>>

\* _dispatch_futex_wake(&dgl->dgl_lock, INT_MAX): every enqueued thread is made runnable, rc 0
FutexWake(t) ==
    /\ pc[t] = "b_wake"
    /\ pc' = [u \in Threads |-> IF u = t THEN "idle" ELSE IF u \in sleepers THEN "w_fret" ELSE pc[u]]
    /\ frc' = [u \in Threads |-> IF u \in sleepers THEN 0 ELSE frc[u]]
    /\ sleepers' = {}
    /\ returned' = returned \cup {t}
    /\ UNCHANGED <<gate, old, exp, calls, late, initCount, initDone>>

(* ---------------------------- _dispatch_once_wait ---------------------------- *)
\* body of the rmw loop, evaluated on the value just observed (local computation)
Eval(t, v) ==
    IF v.st = "D" THEN Go(t, "w_giveup_ret") /\ exp' = exp
    ELSE IF v.w \/ Mut = "no_waiters_bit"
         THEN Go(t, "w_giveup_brk") /\ exp' = [exp EXCEPT ![t] = v]     \* new_v == old_v
         ELSE Go(t, "w_cas") /\ exp' = exp

\* old_v = os_atomic_load(&dgo->dgo_once, relaxed)   (head of os_atomic_rmw_loop)
WLoad(t) ==
    /\ pc[t] = "w_load"
    /\ old' = [old EXCEPT ![t] = gate]
    /\ Eval(t, gate)
    /\ UNCHANGED <<gate, sleepers, frc, calls, late, initCount, initDone, returned>>

\* os_atomic_rmw_loop_give_up(return | break): atomic_thread_fence(relaxed), then leave the loop
Giveup(t) ==
    /\ \/ pc[t] = "w_giveup_ret" /\ Return(t)
       \/ pc[t] = "w_giveup_brk" /\ Go(t, "w_futex") /\ UNCHANGED returned
    /\ UNCHANGED <<gate, sleepers, old, exp, frc, calls, late, initCount, initDone>>

\* os_atomic_cmpxchgvw(&dgo->dgo_once, old_v, old_v | DLOCK_WAITERS_BIT, &old_v, relaxed)
WCasOk(t) ==
    /\ pc[t] = "w_cas" /\ gate = old[t]
    /\ gate' = WithWaiters(gate)
    /\ exp' = [exp EXCEPT ![t] = WithWaiters(gate)]
    /\ Go(t, "w_futex")
    /\ UNCHANGED <<sleepers, old, frc, calls, late, initCount, initDone, returned>>
WCasFail(t) ==
    /\ pc[t] = "w_cas" /\ (gate # old[t] \/ WeakCasSpurious)
    /\ old' = [old EXCEPT ![t] = gate]
    /\ Eval(t, gate)
    /\ UNCHANGED <<gate, sleepers, frc, calls, late, initCount, initDone, returned>>

\* futex(FUTEX_WAIT, new_v): the kernel compares the word with new_v and enqueues the
\* caller ATOMICALLY; on a mismatch it returns EWOULDBLOCK at once
FutexWaitEnter(t) ==
    /\ pc[t] = "w_futex"
    /\ IF gate = exp[t] \/ Mut = "sleep_uncond"
         THEN sleepers' = sleepers \cup {t} /\ Go(t, "w_sleep") /\ frc' = frc
         ELSE sleepers' = sleepers /\ Go(t, "w_fret") /\ frc' = [frc EXCEPT ![t] = EAGAIN]
    /\ UNCHANGED <<gate, old, exp, calls, late, initCount, initDone, returned>>

\* the system call returns (the result is ignored): back to the top of for (;;)
FutexRet(t) ==
    /\ pc[t] = "w_fret"
    /\ Go(t, IF Mut = "wait_noloop" THEN "idle" ELSE "w_load")
    /\ returned' = IF Mut = "wait_noloop" THEN returned \cup {t} ELSE returned
    /\ UNCHANGED <<gate, sleepers, old, exp, frc, calls, late, initCount, initDone>>

(* environment: spurious end of the wait; a signal makes the kernel compare again *)
Spurious(t) ==
    /\ t \in sleepers /\ sleepers' = sleepers \ {t}
    /\ Go(t, "w_fret") /\ frc' = [frc EXCEPT ![t] = 0]
    /\ UNCHANGED <<gate, old, exp, calls, late, initCount, initDone, returned>>
Eintr(t) ==
    /\ t \in sleepers /\ gate # exp[t] /\ sleepers' = sleepers \ {t}
    /\ Go(t, "w_fret") /\ frc' = [frc EXCEPT ![t] = EAGAIN]
    /\ UNCHANGED <<gate, old, exp, calls, late, initCount, initDone, returned>>

Lib(t) == FastRead(t) \/ TryEnterOk(t) \/ TryEnterFail(t) \/ InitStart(t) \/ InitEnd(t)
          \/ BXchg(t) \/ FutexWake(t) \/ WLoad(t) \/ Giveup(t) \/ WCasOk(t) \/ WCasFail(t)
          \/ FutexWaitEnter(t) \/ FutexRet(t)
Env(t) == Spurious(t) \/ Eintr(t)
Call(t) == calls[t] < MaxCalls /\ \E k \in Kinds : CallOnce(t, k)

Next == \E t \in Threads : Call(t) \/ Lib(t) \/ Env(t)
Spec == Init /\ [][Next]_vars
\* fairness on library steps only: clients need not call, the kernel need not wake spuriously;
\* the initialiser terminates (InitEnd is a library step)
FairSpec == Spec /\ \A t \in Threads : WF_vars(Lib(t))

(* ------------------------------ properties (C09) ------------------------------ *)
PCs == {"idle", "fp_read", "tryenter", "callout", "in_init", "b_xchg", "b_wake", "w_load",
        "w_giveup_ret", "w_giveup_brk", "w_cas", "w_futex", "w_sleep", "w_fret", "crashed"}
GateValues == {Unlocked, Done} \cup {Locked(t, w) : t \in Threads, w \in BOOLEAN}
TypeOK == /\ gate \in GateValues /\ sleepers \subseteq Threads
          /\ pc \in [Threads -> PCs] /\ returned \subseteq Threads
          /\ initCount \in Nat /\ initDone \in Nat

\* the initialiser is executed at most once ...
InitAtMostOnce == initCount <= 1
\* ... and exactly once, completely, before any call has returned
NoReturnBeforeInitDone == returned # {} => (initCount = 1 /\ initDone = 1)
\* DONE is published only after the initialiser completed
DoneOnlyAfterInit == gate.st = "D" => initDone = 1
\* a call that starts after DONE was published neither runs the initialiser nor waits
LateCallsImmediate == \A t \in Threads :
    late[t] => pc[t] \in {"idle", "fp_read", "tryenter", "w_load", "w_giveup_ret"}

OwnerPCs == {"callout", "in_init", "b_xchg"}
SingleOwner == /\ Cardinality({t \in Threads : pc[t] \in OwnerPCs}) <= 1
               /\ gate.st = "L" => pc[gate.own] \in OwnerPCs
               /\ gate.st = "U" => initCount = 0
NoCrash == \A t \in Threads : pc[t] # "crashed"

\* structural form of "waiters are released": nobody is asleep on a gate that is DONE unless
\* the wake-all is still to come (the broadcaster sits between the xchg and the futex_wake)
SleepersSound == sleepers = {t \in Threads : pc[t] = "w_sleep"}
NoLostSleeper == (gate.st = "D" /\ sleepers # {}) => \E t \in Threads : pc[t] = "b_wake"
\* a thread about to sleep on a stale value will be refused by the kernel: whoever is past the
\* waiters-bit RMW expects a value that has the waiters bit
WaitValueHasWaiters == \A t \in Threads : pc[t] \in {"w_futex", "w_sleep"} => exp[t].w

AllIdle == \A t \in Threads : pc[t] = "idle"

\* liveness under fairness: every call returns; every sleeper is released
EveryCallReturns == \A t \in Threads : (pc[t] # "idle") ~> (pc[t] = "idle")
WaiterReleased == \A t \in Threads : (t \in sleepers) ~> (t \notin sleepers)
=============================================================================
