------------------------------- MODULE Muxnote -------------------------------
(* The "muxnote" layer of the Linux/epoll backend (src/event/event_epoll.c): several dispatch sources
   (unotes) on ONE file descriptor share ONE epoll registration.  READ and WRITE sources are EV_DISPATCH
   sources: the registration carries EPOLLONESHOT; after an event the direction that fired is "disarmed"
   (dmn_disarmed_events) until the source's handler has run and the source has been re-armed on the
   manager thread; every delivery disables the WHOLE descriptor in the kernel (that is what EPOLLONESHOT
   does), so the manager re-enables the directions that are still armed with an EPOLL_CTL_MOD.

   Transcribed, one action per step the C code takes that another party can observe (a system call, or a
   store to the unote's du_state / ds_pending_data):
     _dispatch_unote_register_muxed    Register(u)      EPOLL_CTL_ADD, or MOD when the direction is not armed;
                                                         link into dmn_readers_head / dmn_writers_head
     _dispatch_event_loop_drain        EpollWait        the kernel reports (interest & ready) [+ HUP], ONESHOT
                                                         disables the entry; dmn_disarmed_events |= fired
     _dispatch_event_merge_fd          BeginIn/BeginOut (SIOCINQ / SIOCOUTQ sample), MergeUnote(u) per unote linked
                                                         in the direction's list (clear DU_STATE_ARMED, store
                                                         ds_pending_data, wake the source), BeginHup/MarkDelete(u)/MergeHup(u)/
                                                         HupDel (EPOLL_CTL_DEL), else Rearm: EPOLL_CTL_MOD(armed events)
     _dispatch_unote_resume_muxed      ResumeMux(u)     clear the direction's disarmed bit, MOD(armed events)
     _dispatch_unote_unregister_muxed  Unregister(u) (cancel, on the manager) / AckDelete(u) (hang-up
                                                         acknowledged on the target queue): MOD or DEL + dispose
   All muxnote fields are private to the manager thread; what is shared is the kernel's entry (epoll_ctl /
   epoll_wait), the descriptor's readiness (environment: the peer writes / drains / closes, the read handler
   drains, the write handler fills) and the unote words read by the source's invoke on its target queue.
   The source machine itself (dq_state, DSF flags, who invokes where) is C15/C16's business (Source.tla,
   Cancel.tla); here it is reduced to: a pending event is latched by a handler invocation that is never
   concurrent with itself; the re-arm pass on the manager happens after the handler returned with nothing
   pending; suspension delays both; a cancelled source is unregistered on the manager once its handler is out.

   Kernel (epoll(7)): an entry {interest mask, enabled}; EPOLL_CTL_ADD/MOD set the mask and enable; epoll_wait
   reports mask & readiness (level triggered, evaluated at the wait) plus EPOLLHUP regardless of the mask, and
   with EPOLLONESHOT disables the entry until the next MOD.

   Two deviations of the code as pinned from the properties below are switchable (FALSE = pinned):
   ListFix  _dispatch_unote_register_muxed chooses the list by `events & EPOLLOUT` AFTER it has widened `events`
            with the muxnote's armed events: a READ unote that joins while EPOLLOUT is armed is linked into the
            WRITERS list - it is handed EPOLLOUT deliveries as read events and never sees EPOLLIN (which then
            stays disarmed: nobody in the readers list re-arms it).  TRUE: the list follows the unote's own filter.
   Fix      disarming is per DIRECTION: with two unotes of one direction the first to re-arm (or a late
            registration) re-enables the direction for its sibling whose event is still unconsumed.
            TRUE: per-unote arming (deliver only to armed unotes; re-arm sets DU_STATE_ARMED again, as the
            kevent backend does).

   Not modelled: EPOLLERR without EPOLLHUP (treated as readable + writable by the library; the driver never produces
   it), signal muxnotes (signalfd, not EV_DISPATCH), regular files (an always-ready eventfd stands in for them),
   ENOMEM / EBADF failures of epoll_ctl other than the ENOENT after a hang-up, and the data races of the hang-up
   path in C (the acknowledging target-queue threads and the manager touch the muxnote lists without a lock). *)
EXTENDS Integers, FiniteSets, TLC

CONSTANTS Readers,      \* unotes of DISPATCH_SOURCE_TYPE_READ on the descriptor
          Writers,      \* unotes of DISPATCH_SOURCE_TYPE_WRITE on the descriptor
          Drainers,     \* readers whose handler reads the descriptor empty (the others only look)
          MaxWrites,    \* how often the peer makes the descriptor readable
          MaxFills,     \* how often a write handler fills the send buffer
          MaxSusp,      \* dispatch_suspend calls (each followed, eventually, by its dispatch_resume)
          MaxCancel,    \* dispatch_source_cancel calls
          MaxRecreate,  \* new sources created in the place of a cancelled one
          AllowHup,     \* the peer may close
          ListFix,      \* see above
          Fix,          \* see above
          Mut           \* "none" or a spec mutation (non-vacuity)

Unotes == Readers \cup Writers
Dirs == {"in", "out"}
Dir(u) == IF u \in Readers THEN "in" ELSE "out"
MaxAvail == 2
None == -1
EOF == -2

VARIABLES
  \* kernel: the epoll entry of the descriptor
  kreg, kmask, ken, lctl,
  \* environment: bytes readable, send buffer has room, peer closed; bounds
  avail, space, hup, nw, nf,
  \* the muxnote: exists, dmn_events, dmn_disarmed_events (EPOLLIN / EPOLLOUT part), the two lists
  dmn, dEvents, dDis, rl, wl, hupDel,
  \* the manager inside _dispatch_event_merge_fd
  mpc, fired, todo, mdata,
  \* per unote / source
  ust, uarm, pend, hs, hdata, susp, canc, nsusp, ncanc, nrecr,
  \* ghosts
  uncons, enabler, viol, ninv

kvars == <<kreg, kmask, ken>>
evars == <<avail, space, hup, nw, nf>>
dvars == <<dmn, dEvents, dDis, rl, wl, hupDel>>
mvars == <<mpc, fired, todo, mdata>>
uvars == <<ust, uarm, pend, hs, hdata, susp, canc, nsusp, ncanc, nrecr>>
gvars == <<uncons, enabler, viol, ninv>>
vars == <<kvars, lctl, evars, dvars, mvars, uvars, gvars>>

members == rl \cup wl
ListOf(d) == IF d = "in" THEN rl ELSE wl
Armed == dEvents \ dDis                       \* _dispatch_muxnote_armed_events (EPOLLIN / EPOLLOUT part)
ArmedOf(ev, dis) == ev \ dis
Ready == (IF avail > 0 \/ hup THEN {"in"} ELSE {}) \cup (IF space THEN {"out"} ELSE {})
SoleDrainer(u) == Drainers = {u}
Min(a, b) == IF a < b THEN a ELSE b
Viols == {"double", "double_sibling", "ctlmask", "empty_at_start", "wrongdir"}

TypeOK ==
  /\ kreg \in BOOLEAN /\ kmask \subseteq Dirs /\ ken \in BOOLEAN
  /\ lctl \in [op : {"none", "add", "mod", "del"}, mask : SUBSET Dirs]
  /\ avail \in 0..MaxAvail /\ space \in BOOLEAN /\ hup \in BOOLEAN /\ nw \in 0..MaxWrites /\ nf \in 0..MaxFills
  /\ dmn \in BOOLEAN /\ dEvents \subseteq Dirs /\ dDis \subseteq Dirs /\ rl \subseteq Unotes /\ wl \subseteq Unotes
  /\ hupDel \in BOOLEAN
  /\ mpc \in {"idle", "in", "in_m", "out", "out_m", "hup", "hup_m", "rearm"}
  /\ fired \subseteq (Dirs \cup {"hup"}) /\ todo \subseteq Unotes /\ mdata \in 0..MaxAvail
  /\ ust \in [Unotes -> {"init", "want", "reg", "ndel", "gone"}]
  /\ uarm \in [Unotes -> BOOLEAN]
  /\ pend \in [Unotes -> {None, EOF} \cup (0..MaxAvail)]
  /\ hs \in [Unotes -> {"idle", "run", "done"}]
  /\ hdata \in [Unotes -> {None, EOF} \cup (0..MaxAvail)]
  /\ susp \in [Unotes -> BOOLEAN] /\ canc \in [Unotes -> BOOLEAN]
  /\ nsusp \in 0..MaxSusp /\ ncanc \in 0..MaxCancel /\ nrecr \in 0..MaxRecreate
  /\ uncons \in [Unotes -> BOOLEAN] /\ enabler \in [Dirs -> Unotes \cup {"none"}] /\ viol \subseteq Viols
  /\ ninv \in [Unotes -> 0..(MaxWrites + 3)]

Init ==
  /\ kreg = FALSE /\ kmask = {} /\ ken = FALSE /\ lctl = [op |-> "none", mask |-> {}]
  /\ avail = 0 /\ space = TRUE /\ hup = FALSE /\ nw = 0 /\ nf = 0
  /\ dmn = FALSE /\ dEvents = {} /\ dDis = {} /\ rl = {} /\ wl = {} /\ hupDel = FALSE
  /\ mpc = "idle" /\ fired = {} /\ todo = {} /\ mdata = 0
  /\ ust = [u \in Unotes |-> "init"] /\ uarm = [u \in Unotes |-> FALSE]
  /\ pend = [u \in Unotes |-> None] /\ hs = [u \in Unotes |-> "idle"] /\ hdata = [u \in Unotes |-> None]
  /\ susp = [u \in Unotes |-> FALSE] /\ canc = [u \in Unotes |-> FALSE] /\ nsusp = 0 /\ ncanc = 0 /\ nrecr = 0
  /\ uncons = [u \in Unotes |-> FALSE] /\ enabler = [d \in Dirs |-> "none"] /\ viol = {}
  /\ ninv = [u \in Unotes |-> 0]

(* ------------------------------ the kernel's side of epoll_ctl ------------------------------ *)
\* lctl (ghost): the system call the last step made, if any - what trace validation compares a recorded
\* epoll_ctl with
NoCtl == [op |-> "none", mask |-> {}]
KNone == UNCHANGED <<kreg, kmask, ken>> /\ lctl' = NoCtl
KAdd(mask) == kreg' = TRUE /\ kmask' = mask /\ ken' = TRUE /\ lctl' = [op |-> "add", mask |-> mask]
\* EPOLL_CTL_MOD on an entry that is gone fails with ENOENT (only after the hang-up path deleted it)
KMod(mask) == /\ IF kreg THEN kmask' = mask /\ ken' = TRUE /\ UNCHANGED kreg ELSE UNCHANGED <<kreg, kmask, ken>>
              /\ lctl' = [op |-> "mod", mask |-> mask]
KDel == kreg' = FALSE /\ kmask' = {} /\ ken' = FALSE /\ lctl' = [op |-> "del", mask |-> {}]
\* every mask handed to the kernel must be the armed set the muxnote holds after the call's own bookkeeping
CtlChk(mask, ev, dis) == viol' = IF mask = ArmedOf(ev, dis) THEN viol ELSE viol \cup {"ctlmask"}

(* ------------------------------ environment and client ------------------------------ *)
PeerWrite == /\ nw < MaxWrites /\ ~hup
             /\ avail' = Min(avail + 1, MaxAvail) /\ nw' = nw + 1
             /\ UNCHANGED <<space, hup, nf, dvars, mvars, uvars, gvars>> /\ KNone
PeerDrain == /\ ~space /\ space' = TRUE
             /\ UNCHANGED <<avail, hup, nw, nf, dvars, mvars, uvars, gvars>> /\ KNone
PeerClose == /\ AllowHup /\ ~hup /\ hup' = TRUE
             /\ UNCHANGED <<avail, space, nw, nf, dvars, mvars, uvars, gvars>> /\ KNone

Activate(u) == /\ ust[u] = "init" /\ ust' = [ust EXCEPT ![u] = "want"]
               /\ UNCHANGED <<uarm, pend, hs, hdata, susp, canc, nsusp, ncanc, nrecr, evars, dvars, mvars, gvars>> /\ KNone
Suspend(u) == /\ ~susp[u] /\ nsusp < MaxSusp /\ ust[u] \in {"reg", "ndel"}
              /\ susp' = [susp EXCEPT ![u] = TRUE] /\ nsusp' = nsusp + 1
              /\ UNCHANGED <<ust, uarm, pend, hs, hdata, canc, ncanc, nrecr, evars, dvars, mvars, gvars>> /\ KNone
ResumeSrc(u) == /\ susp[u] /\ susp' = [susp EXCEPT ![u] = FALSE]
                /\ UNCHANGED <<ust, uarm, pend, hs, hdata, canc, nsusp, ncanc, nrecr, evars, dvars, mvars, gvars>> /\ KNone
CancelRaw(u) == /\ ~canc[u] /\ ust[u] \in {"reg", "ndel", "want"}
                /\ canc' = [canc EXCEPT ![u] = TRUE]
                /\ UNCHANGED <<ust, uarm, pend, hs, hdata, susp, nsusp, nrecr, evars, dvars, mvars, gvars>> /\ KNone
Cancel(u) == ncanc < MaxCancel /\ ust[u] \in {"reg", "ndel"} /\ ncanc' = ncanc + 1 /\ CancelRaw(u)
\* a new source on the same descriptor in the place of one that is gone (dispatch_source_create + activate later)
RecreateRaw(u) ==
  /\ ust[u] = "gone" /\ hs[u] = "idle"
  /\ ust' = [ust EXCEPT ![u] = "init"] /\ uarm' = [uarm EXCEPT ![u] = FALSE] /\ pend' = [pend EXCEPT ![u] = None]
  /\ canc' = [canc EXCEPT ![u] = FALSE] /\ susp' = [susp EXCEPT ![u] = FALSE]
  /\ uncons' = [uncons EXCEPT ![u] = FALSE]
  /\ UNCHANGED <<hs, hdata, nsusp, ncanc, enabler, viol, ninv, evars, dvars, mvars>> /\ KNone
Recreate(u) == nrecr < MaxRecreate /\ nrecr' = nrecr + 1 /\ RecreateRaw(u)

(* ------------------------------ _dispatch_unote_register_muxed ------------------------------ *)
\* `events` as the C code holds it when it picks the list (widened in the MOD branch only)
LinkInto(u, events) ==
  LET toW == IF ListFix THEN Dir(u) = "out" ELSE "out" \in events
  IN /\ wl' = IF toW THEN wl \cup {u} ELSE wl
     /\ rl' = IF toW THEN rl ELSE rl \cup {u}
Register(u) ==
  /\ mpc = "idle" /\ ust[u] = "want"
  /\ LET d == Dir(u) IN
     IF dmn THEN
       IF d \notin Armed THEN           \* events & ~_dispatch_muxnote_armed_events(dmn)
         LET mask == Armed \cup {d}                 \* events |= armed events
             ev == dEvents \cup mask                \* dmn_events |= events
             dis == dDis \ mask                     \* dmn_disarmed_events &= ~events
         IN /\ KMod(mask)
            /\ IF kreg THEN
                 /\ CtlChk(mask, ev, dis)
                 /\ dEvents' = ev /\ dDis' = dis
                 /\ LinkInto(u, mask) /\ UNCHANGED <<dmn, hupDel>>
                 /\ enabler' = [enabler EXCEPT ![d] = u]
                 /\ ust' = [ust EXCEPT ![u] = "reg"] /\ uarm' = [uarm EXCEPT ![u] = TRUE]
               ELSE   \* the MOD fails (entry deleted by a hang-up): registration fails, the source is finalized
                 /\ ust' = [ust EXCEPT ![u] = "gone"] /\ UNCHANGED <<uarm, dvars, viol, enabler>>
       ELSE     \* the direction is already armed: no system call
         /\ LinkInto(u, {d}) /\ UNCHANGED <<dmn, dEvents, dDis, hupDel, viol, enabler>> /\ KNone
         /\ ust' = [ust EXCEPT ![u] = "reg"] /\ uarm' = [uarm EXCEPT ![u] = TRUE]
     ELSE       \* _dispatch_muxnote_create + EPOLL_CTL_ADD
       /\ KAdd({d}) /\ CtlChk({d}, {d}, {})
       /\ dmn' = TRUE /\ dEvents' = {d} /\ dDis' = {} /\ hupDel' = FALSE
       /\ rl' = (IF d = "in" THEN {u} ELSE {}) /\ wl' = (IF d = "out" THEN {u} ELSE {})
       /\ enabler' = [dd \in Dirs |-> IF dd = d THEN u ELSE "none"]
       /\ ust' = [ust EXCEPT ![u] = "reg"] /\ uarm' = [uarm EXCEPT ![u] = TRUE]
  /\ UNCHANGED <<pend, hs, hdata, susp, canc, nsusp, ncanc, nrecr, evars, mvars, uncons, ninv>>

(* ------------------------------ _dispatch_event_loop_drain: one epoll_wait result for this descriptor ------- *)
NextPhase(after, f) ==
  IF after = "start" /\ "in" \in f THEN "in"
  ELSE IF after \in {"start", "in"} /\ "out" \in f THEN "out"
  ELSE IF "hup" \in f THEN "hup" ELSE "rearm"

\* f: what the kernel reports.  The kernel side (enabled, within the interest mask or HUP) is the guard;
\* the muxnote side is the first statement of _dispatch_event_merge_fd: dmn_disarmed_events |= events & (IN|OUT)
EpollWaitF(f) ==
  /\ mpc = "idle" /\ kreg /\ ken /\ f \subseteq (kmask \cup {"hup"})
  /\ ken' = FALSE /\ UNCHANGED <<kreg, kmask>> /\ lctl' = NoCtl      \* EPOLLONESHOT
  /\ fired' = f /\ dDis' = dDis \cup (f \cap Dirs)
  /\ mpc' = NextPhase("start", f) /\ UNCHANGED <<todo, mdata>>
  /\ UNCHANGED <<dmn, dEvents, rl, wl, hupDel, evars, uvars, gvars>>
EpollWait == LET f == (kmask \cap Ready) \cup (IF hup THEN {"hup"} ELSE {}) IN f # {} /\ EpollWaitF(f)

\* data = _dispatch_get_buffer_size(): sampled AFTER the wait returned; then the direction's list is walked
BeginDir(d, sample) ==
  /\ mpc = d
  /\ LET l == ListOf(d) IN
       /\ mdata' = sample /\ todo' = l
       /\ mpc' = IF l = {} THEN NextPhase(d, fired) ELSE (IF d = "in" THEN "in_m" ELSE "out_m")
  /\ UNCHANGED <<fired, evars, dvars, uvars, gvars>> /\ KNone
BeginIn == BeginDir("in", avail)
BeginOut == BeginDir("out", 1)

\* one unote of the list: clear DU_STATE_ARMED, ds_pending_data := ~data, dux_merge_evt (wake the source)
MergeUnoteD(u, data) ==
  /\ mpc \in {"in_m", "out_m"} /\ u \in todo
  /\ todo' = todo \ {u}
  /\ LET d == IF mpc = "in_m" THEN "in" ELSE "out" IN
     /\ mpc' = IF todo' = {} THEN NextPhase(d, fired) ELSE mpc
     /\ IF Fix /\ ~uarm[u]
        THEN UNCHANGED <<uarm, pend, uncons, viol>>            \* per-unote arming: its previous event is not consumed yet
        ELSE /\ uarm' = [uarm EXCEPT ![u] = FALSE]
             /\ pend' = [pend EXCEPT ![u] = data]
             /\ viol' = viol \cup (IF Dir(u) # d THEN {"wrongdir"} ELSE {})
                             \cup (IF uncons[u] /\ Dir(u) = d
                                   THEN (IF enabler[d] \notin {u, "none"} THEN {"double_sibling"} ELSE {"double"})
                                   ELSE {})
             /\ uncons' = [uncons EXCEPT ![u] = TRUE]
  /\ UNCHANGED <<fired, mdata, ust, hs, hdata, susp, canc, nsusp, ncanc, nrecr, enabler, ninv, evars, dvars>> /\ KNone
MergeUnote(u) == MergeUnoteD(u, mdata)

\* SR-9033: EPOLLHUP is unmaskable: every linked unote gets NEEDS_DELETE + an EOF event, the entry is deleted
BeginHup ==
  /\ mpc = "hup" /\ todo' = members /\ mpc' = "hup_m"
  /\ UNCHANGED <<fired, mdata, evars, dvars, uvars, gvars>> /\ KNone
\* _dispatch_event_merge_hangup, first half: du_state := NEEDS_DELETE, not armed.  From here on the source's invoke
\* on its target queue may acknowledge the deletion (AckDelete) - also before the second half has run
MarkDelete(u) ==
  /\ mpc = "hup_m" /\ u \in todo /\ ust[u] = "reg"
  /\ ust' = [ust EXCEPT ![u] = "ndel"] /\ uarm' = [uarm EXCEPT ![u] = FALSE]
  /\ UNCHANGED <<mpc, fired, todo, mdata, pend, hs, hdata, susp, canc, nsusp, ncanc, nrecr, evars, dvars, gvars>> /\ KNone
\* second half: ds_pending_data := ~0 (end of file), dux_merge_evt (wake the source)
MergeHup(u) ==
  /\ mpc = "hup_m" /\ u \in todo /\ ust[u] # "reg"
  /\ todo' = todo \ {u}
  /\ pend' = [pend EXCEPT ![u] = EOF]
  /\ UNCHANGED <<mpc, fired, mdata, ust, uarm, hs, hdata, susp, canc, nsusp, ncanc, nrecr, evars, dvars, gvars>> /\ KNone
HupDel ==     \* epoll_ctl(EPOLL_CTL_DEL); return (no re-arm)
  /\ mpc = "hup_m" /\ todo = {}
  /\ KDel /\ mpc' = "idle" /\ hupDel' = dmn
  /\ UNCHANGED <<fired, todo, mdata, dmn, dEvents, dDis, rl, wl, evars, uvars, gvars>>

\* events = _dispatch_muxnote_armed_events(dmn); if (events) _dispatch_epoll_update(dmn, events, EPOLL_CTL_MOD)
\* (events always holds EPOLLFREE | EPOLLONESHOT, so the MOD is made even when no direction is armed)
Rearm ==
  /\ mpc = "rearm"
  /\ LET mask == IF Mut = "rearm_fired_now" THEN dEvents \ (fired \cap Dirs) ELSE Armed
         skip == (Mut = "rearm_fired_now" /\ mask = {}) \/ Mut = "no_rearm"
     IN IF skip THEN UNCHANGED <<viol>> /\ KNone
        ELSE KMod(mask) /\ CtlChk(mask, dEvents, dDis)
  /\ mpc' = "idle" /\ UNCHANGED <<fired, todo, mdata, evars, dvars, uvars, uncons, enabler, ninv>>

(* ------------------------------ _dispatch_unote_resume_muxed (the re-arm pass of the source, on the manager) -- *)
\* reached from _dispatch_source_invoke2 on the manager when the unote needs a re-arm and nothing is pending
ResumeMuxRaw(u) ==
  /\ mpc = "idle" /\ ust[u] = "reg" /\ hs[u] = "idle" /\ pend[u] = None
  /\ ~uarm[u] /\ uncons[u]
  /\ LET d == Dir(u) IN
     IF d \in dDis THEN
       LET dis == dDis \ {d}
           mask == ArmedOf(dEvents, dis)
       IN /\ dDis' = dis /\ enabler' = [enabler EXCEPT ![d] = u]
          /\ IF Mut = "resume_no_mod" THEN UNCHANGED <<viol>> /\ KNone
             ELSE KMod(mask) /\ CtlChk(mask, dEvents, dis)
     ELSE UNCHANGED <<dDis, viol, enabler>> /\ KNone
  /\ uarm' = [uarm EXCEPT ![u] = Fix]            \* pinned: DU_STATE_ARMED is never set again on this backend
  /\ uncons' = [uncons EXCEPT ![u] = FALSE]
  /\ UNCHANGED <<dmn, dEvents, rl, wl, hupDel, ust, pend, hs, hdata, susp, canc, nsusp, ncanc, nrecr, ninv, evars, mvars>>
\* ... and the source is neither suspended nor cancelled
ResumeMux(u) == ~susp[u] /\ ~canc[u] /\ ResumeMuxRaw(u)

(* ------------------------------ _dispatch_unote_unregister_muxed ------------------------------ *)
\* the muxnote bookkeeping, transcribed statement by statement
UnregMux(u) ==
  LET r1 == rl \ {u}
      w1 == wl \ {u}
      emptyDirs == (IF r1 = {} THEN {"in"} ELSE {}) \cup (IF w1 = {} THEN {"out"} ELSE {})
      events == dEvents \ emptyDirs                       \* local `events`
      dis1 == dDis \ emptyDirs                            \* if (dmn_disarmed_events & D) { both cleared }
      ev1 == dEvents \ (emptyDirs \cap dDis)
  IN /\ rl' = r1 /\ wl' = w1
     /\ IF events # {} THEN
          IF Mut = "unreg_keeps_mask" THEN
            /\ dEvents' = events /\ dDis' = dis1 /\ UNCHANGED <<viol, dmn, hupDel>> /\ KNone
          ELSE IF events # ArmedOf(ev1, dis1) THEN
            LET mask == ArmedOf(events, dis1) IN          \* dmn_events = events; MOD(armed)
            /\ dEvents' = events /\ dDis' = dis1
            /\ KMod(mask) /\ CtlChk(mask, events, dis1) /\ UNCHANGED <<dmn, hupDel>>
          ELSE /\ dEvents' = ev1 /\ dDis' = dis1 /\ UNCHANGED <<viol, dmn, hupDel>> /\ KNone
        ELSE   \* last unote: EPOLL_CTL_DEL, _dispatch_muxnote_dispose
          /\ (IF Mut = "last_leaves_no_del" THEN KNone ELSE KDel)
          /\ dmn' = FALSE /\ dEvents' = {} /\ dDis' = {} /\ hupDel' = FALSE /\ UNCHANGED viol

\* cancel path: _dispatch_source_invoke2 on the manager, the handler is not running (drain lock)
UnregisterRaw(u) ==
  /\ mpc = "idle" /\ canc[u] /\ ust[u] = "reg" /\ hs[u] = "idle"
  /\ UnregMux(u)
  /\ ust' = [ust EXCEPT ![u] = "gone"] /\ uarm' = [uarm EXCEPT ![u] = FALSE]
  /\ pend' = [pend EXCEPT ![u] = None]          \* a cancelled source never latches again
  /\ uncons' = [uncons EXCEPT ![u] = FALSE]
  /\ UNCHANGED <<hs, hdata, susp, canc, nsusp, ncanc, nrecr, enabler, ninv, evars, mvars>>
Unregister(u) == ~susp[u] /\ UnregisterRaw(u)

\* hang-up path: DU_STATE_NEEDS_DELETE is acknowledged by the source's invoke on its TARGET queue, which calls
\* _dispatch_unote_unregister_muxed there (not on the manager; the data race on the muxnote lists that this
\* implies in C is not visible at this level of atomicity)
AckDeleteRaw(u) ==
  /\ ust[u] = "ndel" /\ hs[u] = "idle"
  /\ UnregMux(u)
  /\ ust' = [ust EXCEPT ![u] = "gone"] /\ uncons' = [uncons EXCEPT ![u] = FALSE]
  /\ UNCHANGED <<uarm, pend, hs, hdata, susp, canc, nsusp, ncanc, nrecr, enabler, ninv, evars, mvars>>
AckDelete(u) == ~susp[u] /\ AckDeleteRaw(u)

(* ------------------------------ the event handler on the target queue ------------------------------ *)
\* _dispatch_source_latch_and_call: ds_data = ~xchg(ds_pending_data, 0); callout.  `empty`: what a consuming
\* reader finds when it looks at the descriptor at the start of the invocation
HStartE(u, empty) ==
  /\ pend[u] # None /\ hs[u] = "idle"
  /\ hdata' = [hdata EXCEPT ![u] = pend[u]] /\ pend' = [pend EXCEPT ![u] = None]
  /\ hs' = [hs EXCEPT ![u] = "run"]
  /\ ninv' = IF SoleDrainer(u) THEN [ninv EXCEPT ![u] = Min(@ + 1, MaxWrites + 3)] ELSE ninv
  /\ viol' = IF SoleDrainer(u) /\ empty THEN viol \cup {"empty_at_start"} ELSE viol
  /\ UNCHANGED <<ust, uarm, susp, canc, nsusp, ncanc, nrecr, uncons, enabler, evars, dvars, mvars>> /\ KNone
HStartRaw(u) == HStartE(u, avail = 0 /\ ~hup)
HStart(u) == ~susp[u] /\ ~canc[u] /\ HStartRaw(u)
\* what the handler does to the descriptor: a draining reader reads it empty; a writer may fill the send buffer
HBody(u) ==
  /\ hs[u] = "run"
  /\ \/ u \in Drainers /\ avail' = 0 /\ UNCHANGED <<space, nf>>
     \/ u \in Writers /\ nf < MaxFills /\ space /\ space' = FALSE /\ nf' = nf + 1 /\ UNCHANGED avail
  /\ hs' = [hs EXCEPT ![u] = "done"]
  /\ UNCHANGED <<hup, nw, ust, uarm, pend, hdata, susp, canc, nsusp, ncanc, nrecr, dvars, mvars, gvars>> /\ KNone
HEndRaw(u) ==
  /\ hs[u] # "idle"
  /\ hs' = [hs EXCEPT ![u] = "idle"] /\ hdata' = [hdata EXCEPT ![u] = None]
  /\ UNCHANGED <<ust, uarm, pend, susp, canc, nsusp, ncanc, nrecr, evars, dvars, mvars, gvars>> /\ KNone
HEnd(u) == (hs[u] = "done" \/ u \notin Drainers) /\ HEndRaw(u)

MergeStep == BeginIn \/ BeginOut \/ BeginHup \/ HupDel \/ Rearm \/ \E u \in Unotes : MergeUnote(u) \/ MarkDelete(u) \/ MergeHup(u)
MgrStep == EpollWait \/ MergeStep \/ \E u \in Unotes : Register(u) \/ ResumeMux(u) \/ Unregister(u)
SrcStep(u) == HStart(u) \/ HBody(u) \/ HEnd(u) \/ AckDelete(u)
EnvStep == PeerWrite \/ PeerDrain \/ PeerClose
           \/ \E u \in Unotes : Activate(u) \/ Suspend(u) \/ Cancel(u) \/ Recreate(u)
Next == MgrStep \/ EnvStep \/ \E u \in Unotes : SrcStep(u) \/ ResumeSrc(u)

Spec == Init /\ [][Next]_vars
\* the manager and the target queues keep running; a suspended source is resumed; the peer drains what we sent.
\* The manager serves its queue in FIFO order and polls the kernel in between: each of its idle-time choices gets
\* its turn although the others keep disabling it (strong fairness per choice).
FairSpec == Spec /\ WF_vars(MergeStep) /\ SF_vars(EpollWait) /\ WF_vars(PeerDrain)
            /\ \A u \in Unotes : /\ SF_vars(Register(u)) /\ SF_vars(ResumeMux(u)) /\ SF_vars(Unregister(u))
                                /\ WF_vars(SrcStep(u)) /\ WF_vars(ResumeSrc(u))

(* ------------------------------ the properties ------------------------------ *)
Quiet == mpc = "idle"
\* (1) at every EPOLL_CTL_ADD / MOD the interest set handed to the kernel is dmn_events & ~dmn_disarmed_events
CtlMaskIsArmedSet == "ctlmask" \notin viol
\* ... hence, between deliveries, the kernel's entry is enabled with exactly the armed directions
KernelMatchesMux == (Quiet /\ dmn /\ kreg) => (ken /\ kmask = Armed)
\* (2) disarmed <=> an event of that direction was delivered to a linked unote which has not re-armed yet
DisarmedImpliesUnconsumed ==
  (Quiet /\ ListFix) => \A d \in dDis : \A u \in members : (Dir(u) = d /\ ust[u] = "reg") => uncons[u]
UnconsumedImpliesDisarmed ==
  (Quiet /\ ~Fix) => \A u \in members : (ust[u] = "reg" /\ uncons[u]) => Dir(u) \in dDis
\* a direction is enabled in the kernel only if no delivered event of that direction is still unconsumed
\* (holds in EVERY state, also inside _dispatch_event_merge_fd: ONESHOT keeps the entry disabled until the MOD)
EnabledOnlyIfConsumed ==
  ~Fix => \A u \in members : (ust[u] = "reg" /\ uncons[u] /\ kreg /\ ken) => Dir(u) \notin kmask
\* (3) no unote receives a second event while its previous one is pending or its handler is running;
\* "double_sibling": the direction had been re-enabled by ANOTHER unote of the same direction (its re-arm or
\* its registration) - the per-direction disarm of the pinned code (Fix = FALSE) with two unotes of one direction
NoDoubleDelivery == "double" \notin viol
NoSiblingDoubleDelivery == "double_sibling" \notin viol
\* a unote is linked in the list of its own direction and only ever handed events of that direction
NoWrongDirDelivery == "wrongdir" \notin viol
ListsMatchDirection == (\A u \in rl : Dir(u) = "in") /\ (\A u \in wl : Dir(u) = "out") /\ NoWrongDirDelivery
\* (4) the registration exists exactly while a unote is linked (the hang-up path deletes it early, once)
RegistrationExact ==
  /\ dmn <=> (members # {})
  /\ kreg => dmn
  /\ (Quiet /\ ~hupDel) => (kreg <=> dmn)
  /\ dDis \subseteq dEvents
  /\ \A u \in Unotes : u \in members <=> ust[u] \in {"reg", "ndel"}
EventsMatchLists == dmn => \A d \in Dirs : (d \in dEvents <=> ListOf(d) # {})
\* API-level consequences (the oracles the driver evaluates on the real library)
\* (for the one reader that consumes; a second reader may find that its sibling drained the descriptor first)
ReadNeverZero == \A u \in Readers : (SoleDrainer(u) /\ hs[u] # "idle" /\ hdata[u] = 0) => hup   \* zero bytes only at end of file
ReaderFindsData == "empty_at_start" \notin viol
InvocationsLeWrites == \A u \in Unotes : (SoleDrainer(u) /\ ~hup) => ninv[u] <= nw
HandlerSerial == \A u \in Unotes : hs[u] # "idle" => hdata[u] # None

\* liveness: a registered, not cancelled source whose direction is ready gets its handler invoked
Deliverable(u) == ust[u] = "reg" /\ ~canc[u] /\ ~hupDel /\ Dir(u) \in Ready
Delivered(u) == [](Deliverable(u) ~> (hs[u] # "idle" \/ ~Deliverable(u)))
Live == \A u \in Unotes : Delivered(u)
=============================================================================
