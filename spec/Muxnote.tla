------------------------------- MODULE Muxnote -------------------------------
(* The "muxnote" layer of the Linux/epoll backend (src/event/event_epoll.c): several dispatch sources
   (unotes) on ONE file descriptor share ONE epoll registration.  READ and WRITE sources are EV_DISPATCH
   sources: the registration carries EPOLLONESHOT; after an event the direction that fired is "disarmed"
   (dmn_disarmed_events) until the source's handler has run and the source has been re-armed on the
   manager thread; every delivery disables the WHOLE descriptor in the kernel (that is what EPOLLONESHOT
   does), so the manager re-enables the directions that are still armed with an EPOLL_CTL_MOD.

   Transcribed, one action per step the C code takes that another party can observe (a system call, or a
   store to the unote's du_state / ds_pending_data):
     _dispatch_unote_register_muxed    Register(u)      EPOLL_CTL_ADD, or MOD when the direction is not armed
     _dispatch_event_loop_drain        EpollWait        the kernel reports (interest & ready) [+ HUP], ONESHOT
                                                         disables the entry; dmn_disarmed_events |= fired
     _dispatch_event_merge_fd          BeginIn/BeginOut (SIOCINQ / SIOCOUTQ sample), MergeUnote(u) per linked
                                                         unote of the direction (clear DU_STATE_ARMED, store
                                                         ds_pending_data, wake the source), BeginHup/MergeHup(u)
                                                         + EPOLL_CTL_DEL, else Rearm: EPOLL_CTL_MOD(armed events)
     _dispatch_unote_resume_muxed      ResumeMux(u)     clear the direction's disarmed bit, MOD(armed events)
     _dispatch_unote_unregister_muxed  Unregister(u) (cancel, on the manager) / AckDelete(u) (hang-up
                                                         acknowledged on the target queue): MOD or DEL + dispose
   All muxnote fields are private to the manager thread; what is shared is the kernel's entry (epoll_ctl /
   epoll_wait), the descriptor's readiness (environment: the peer writes / drains / closes, the read handler
   drains, the write handler fills) and the unote words read by the source's invoke on its target queue.
   The source machine itself (dq_state, DSF flags, who invokes where) is C15/C16's business (Source.tla,
   Cancel.tla); here it is reduced to: a pending event is latched by a handler invocation that is never
   concurrent with itself; the re-arm pass on the manager happens after the handler returned with nothing
   pending; suspension delays both; a cancelled source is unregistered on the manager once its handler is out.

   Kernel (epoll(7)): an entry {interest mask, enabled}; EPOLL_CTL_ADD/MOD set the mask and enable; epoll_wait
   reports mask & readiness (level triggered, evaluated at the wait) plus EPOLLHUP regardless of the mask, and
   with EPOLLONESHOT disables the entry until the next MOD.

   Fix = FALSE is the code as pinned: disarming is per DIRECTION.  With two sources of the same direction
   the first one to re-arm (or a late registration) re-enables the direction for its sibling whose event
   is still unconsumed - the invariants below then fail in the two-reader configurations (expected
   counterexample, see MUX.py).  Fix = TRUE models per-unote arming (deliver only to armed unotes, re-arm
   sets DU_STATE_ARMED again, like the kevent backend does). *)
EXTENDS Integers, FiniteSets, TLC

CONSTANTS Readers,      \* unotes of DISPATCH_SOURCE_TYPE_READ on the descriptor
          Writers,      \* unotes of DISPATCH_SOURCE_TYPE_WRITE on the descriptor
          Drainers,     \* readers whose handler reads the descriptor empty (the others only look)
          MaxWrites,    \* how often the peer makes the descriptor readable
          MaxFills,     \* how often a write handler fills the send buffer
          MaxSusp,      \* dispatch_suspend calls (each followed, eventually, by its dispatch_resume)
          MaxCancel,    \* dispatch_source_cancel calls
          AllowHup,     \* the peer may close
          Fix,          \* FALSE: pinned (per-direction disarm); TRUE: per-unote arming
          Mut           \* "none" or a spec mutation (non-vacuity)

Unotes == Readers \cup Writers
Dirs == {"in", "out"}
Dir(u) == IF u \in Readers THEN "in" ELSE "out"
MaxAvail == 2
None == -1
EOF == 9

VARIABLES
  \* kernel: the epoll entry of the descriptor
  kreg, kmask, ken,
  \* environment: bytes readable, send buffer has room, peer closed; bounds
  avail, space, hup, nw, nf,
  \* the muxnote
  dmn, dEvents, dDis, members, hupDel,
  \* the manager inside _dispatch_event_merge_fd
  mpc, fired, todo, mdata,
  \* per unote / source
  ust, uarm, pend, hs, hdata, susp, canc, nsusp, ncanc,
  \* ghosts
  uncons, viol, ninv

kvars == <<kreg, kmask, ken>>
evars == <<avail, space, hup, nw, nf>>
dvars == <<dmn, dEvents, dDis, members, hupDel>>
mvars == <<mpc, fired, todo, mdata>>
uvars == <<ust, uarm, pend, hs, hdata, susp, canc, nsusp, ncanc>>
gvars == <<uncons, viol, ninv>>
vars == <<kvars, evars, dvars, mvars, uvars, gvars>>

Armed == dEvents \ dDis                       \* _dispatch_muxnote_armed_events (EPOLLIN / EPOLLOUT part)
ArmedOf(ev, dis) == ev \ dis
Ready == (IF avail > 0 \/ hup THEN {"in"} ELSE {}) \cup (IF space THEN {"out"} ELSE {})
SoleDrainer(u) == Drainers = {u}
Min(a, b) == IF a < b THEN a ELSE b

TypeOK ==
  /\ kreg \in BOOLEAN /\ kmask \subseteq Dirs /\ ken \in BOOLEAN
  /\ avail \in 0..MaxAvail /\ space \in BOOLEAN /\ hup \in BOOLEAN /\ nw \in 0..MaxWrites /\ nf \in 0..MaxFills
  /\ dmn \in BOOLEAN /\ dEvents \subseteq Dirs /\ dDis \subseteq Dirs /\ members \subseteq Unotes /\ hupDel \in BOOLEAN
  /\ mpc \in {"idle", "in", "in_m", "out", "out_m", "hup", "hup_m", "rearm"}
  /\ fired \subseteq (Dirs \cup {"hup"}) /\ todo \subseteq Unotes /\ mdata \in 0..MaxAvail
  /\ ust \in [Unotes -> {"init", "want", "reg", "ndel", "gone"}]
  /\ uarm \in [Unotes -> BOOLEAN]
  /\ pend \in [Unotes -> {None, EOF} \cup (0..MaxAvail)]
  /\ hs \in [Unotes -> {"idle", "run", "done"}]
  /\ hdata \in [Unotes -> {None, EOF} \cup (0..MaxAvail)]
  /\ susp \in [Unotes -> BOOLEAN] /\ canc \in [Unotes -> BOOLEAN]
  /\ nsusp \in 0..MaxSusp /\ ncanc \in 0..MaxCancel
  /\ uncons \in [Unotes -> BOOLEAN] /\ viol \subseteq {"double", "ctlmask", "empty_at_start"}
  /\ ninv \in [Unotes -> 0..(MaxWrites + 3)]

Init ==
  /\ kreg = FALSE /\ kmask = {} /\ ken = FALSE
  /\ avail = 0 /\ space = TRUE /\ hup = FALSE /\ nw = 0 /\ nf = 0
  /\ dmn = FALSE /\ dEvents = {} /\ dDis = {} /\ members = {} /\ hupDel = FALSE
  /\ mpc = "idle" /\ fired = {} /\ todo = {} /\ mdata = 0
  /\ ust = [u \in Unotes |-> "init"] /\ uarm = [u \in Unotes |-> FALSE]
  /\ pend = [u \in Unotes |-> None] /\ hs = [u \in Unotes |-> "idle"] /\ hdata = [u \in Unotes |-> None]
  /\ susp = [u \in Unotes |-> FALSE] /\ canc = [u \in Unotes |-> FALSE] /\ nsusp = 0 /\ ncanc = 0
  /\ uncons = [u \in Unotes |-> FALSE] /\ viol = {} /\ ninv = [u \in Unotes |-> 0]

(* ------------------------------ the kernel's side of epoll_ctl ------------------------------ *)
KAdd(mask) == kreg' = TRUE /\ kmask' = mask /\ ken' = TRUE
\* EPOLL_CTL_MOD on an entry that is gone fails with ENOENT (only after the hang-up path deleted it)
KMod(mask) == IF kreg THEN kmask' = mask /\ ken' = TRUE /\ UNCHANGED kreg ELSE UNCHANGED kvars
KDel == kreg' = FALSE /\ kmask' = {} /\ ken' = FALSE
\* every mask handed to the kernel must be the armed set the muxnote holds after the call's own bookkeeping
CtlChk(mask, ev, dis) == viol' = IF mask = ArmedOf(ev, dis) THEN viol ELSE viol \cup {"ctlmask"}

(* ------------------------------ environment and client ------------------------------ *)
PeerWrite == /\ nw < MaxWrites /\ ~hup
             /\ avail' = Min(avail + 1, MaxAvail) /\ nw' = nw + 1
             /\ UNCHANGED <<space, hup, nf, kvars, dvars, mvars, uvars, gvars>>
PeerDrain == /\ ~space /\ space' = TRUE
             /\ UNCHANGED <<avail, hup, nw, nf, kvars, dvars, mvars, uvars, gvars>>
PeerClose == /\ AllowHup /\ ~hup /\ hup' = TRUE
             /\ UNCHANGED <<avail, space, nw, nf, kvars, dvars, mvars, uvars, gvars>>

Activate(u) == /\ ust[u] = "init" /\ ust' = [ust EXCEPT ![u] = "want"]
               /\ UNCHANGED <<uarm, pend, hs, hdata, susp, canc, nsusp, ncanc, kvars, evars, dvars, mvars, gvars>>
Suspend(u) == /\ ~susp[u] /\ nsusp < MaxSusp /\ ust[u] \in {"reg", "ndel"}
              /\ susp' = [susp EXCEPT ![u] = TRUE] /\ nsusp' = nsusp + 1
              /\ UNCHANGED <<ust, uarm, pend, hs, hdata, canc, ncanc, kvars, evars, dvars, mvars, gvars>>
ResumeSrc(u) == /\ susp[u] /\ susp' = [susp EXCEPT ![u] = FALSE]
                /\ UNCHANGED <<ust, uarm, pend, hs, hdata, canc, nsusp, ncanc, kvars, evars, dvars, mvars, gvars>>
Cancel(u) == /\ ~canc[u] /\ ncanc < MaxCancel /\ ust[u] \in {"reg", "ndel"}
             /\ canc' = [canc EXCEPT ![u] = TRUE] /\ ncanc' = ncanc + 1
             /\ UNCHANGED <<ust, uarm, pend, hs, hdata, susp, nsusp, kvars, evars, dvars, mvars, gvars>>

(* ------------------------------ _dispatch_unote_register_muxed ------------------------------ *)
Register(u) ==
  /\ mpc = "idle" /\ ust[u] = "want"
  /\ LET d == Dir(u) IN
     IF dmn THEN
       IF d \notin Armed THEN           \* events & ~_dispatch_muxnote_armed_events(dmn)
         IF kreg THEN
           LET mask == Armed \cup {d}
               ev == dEvents \cup mask                \* dmn_events |= events
               dis == IF Mut = "register_keeps_disarmed" THEN dDis ELSE dDis \ mask   \* dmn_disarmed_events &= ~events
           IN /\ KMod(mask) /\ CtlChk(mask, ev, dis)
              /\ dEvents' = ev /\ dDis' = dis
              /\ members' = members \cup {u} /\ UNCHANGED <<dmn, hupDel>>
              /\ ust' = [ust EXCEPT ![u] = "reg"] /\ uarm' = [uarm EXCEPT ![u] = TRUE]
         ELSE   \* the MOD fails (entry deleted by a hang-up): registration fails, the source is finalized
           /\ ust' = [ust EXCEPT ![u] = "gone"] /\ UNCHANGED <<uarm, kvars, dvars, viol>>
       ELSE     \* the direction is already armed: no system call
         /\ members' = members \cup {u} /\ UNCHANGED <<dmn, dEvents, dDis, hupDel, kvars, viol>>
         /\ ust' = [ust EXCEPT ![u] = "reg"] /\ uarm' = [uarm EXCEPT ![u] = TRUE]
     ELSE       \* _dispatch_muxnote_create + EPOLL_CTL_ADD
       /\ KAdd({d}) /\ CtlChk({d}, {d}, {})
       /\ dmn' = TRUE /\ dEvents' = {d} /\ dDis' = {} /\ members' = {u} /\ hupDel' = FALSE
       /\ ust' = [ust EXCEPT ![u] = "reg"] /\ uarm' = [uarm EXCEPT ![u] = TRUE]
  /\ UNCHANGED <<pend, hs, hdata, susp, canc, nsusp, ncanc, evars, mvars, uncons, ninv>>

(* ------------------------------ _dispatch_event_loop_drain: one epoll_wait result for this descriptor ------- *)
NextPhase(after, f) ==
  IF after = "start" /\ "in" \in f THEN "in"
  ELSE IF after \in {"start", "in"} /\ "out" \in f THEN "out"
  ELSE IF "hup" \in f THEN "hup" ELSE "rearm"

\* f: what the kernel reports.  The kernel side (enabled, within the interest mask or HUP) is the guard;
\* the muxnote side is the first statement of _dispatch_event_merge_fd: dmn_disarmed_events |= events & (IN|OUT)
EpollWaitF(f) ==
  /\ mpc = "idle" /\ kreg /\ ken /\ f # {} /\ f \subseteq (kmask \cup {"hup"})
  /\ ken' = FALSE /\ UNCHANGED <<kreg, kmask>>                 \* EPOLLONESHOT
  /\ fired' = f /\ dDis' = dDis \cup (f \cap Dirs)
  /\ mpc' = NextPhase("start", f) /\ UNCHANGED <<todo, mdata>>
  /\ UNCHANGED <<dmn, dEvents, members, hupDel, evars, uvars, gvars>>
EpollWait == EpollWaitF((kmask \cap Ready) \cup (IF hup THEN {"hup"} ELSE {}))

\* data = _dispatch_get_buffer_size(): sampled AFTER the wait returned; walks the direction's list
BeginDir(d, sample) ==
  /\ mpc = d
  /\ LET l == {u \in members : Dir(u) = d} IN
       /\ mdata' = sample /\ todo' = l
       /\ mpc' = IF l = {} THEN NextPhase(d, fired) ELSE (IF d = "in" THEN "in_m" ELSE "out_m")
  /\ UNCHANGED <<fired, kvars, evars, dvars, uvars, gvars>>
BeginIn == BeginDir("in", avail)
BeginOut == BeginDir("out", 1)

\* one unote of the list: clear DU_STATE_ARMED, ds_pending_data := ~data, dux_merge_evt (wake the source)
MergeUnoteD(u, data) ==
  /\ mpc \in {"in_m", "out_m"} /\ u \in todo
  /\ todo' = todo \ {u}
  /\ mpc' = IF todo' = {} THEN NextPhase(IF mpc = "in_m" THEN "in" ELSE "out", fired) ELSE mpc
  /\ IF Fix /\ ~uarm[u]
     THEN UNCHANGED <<uarm, pend, uncons, viol>>            \* per-unote arming: its previous event is not consumed yet
     ELSE /\ uarm' = [uarm EXCEPT ![u] = FALSE]
          /\ pend' = [pend EXCEPT ![u] = data]
          /\ viol' = IF uncons[u] THEN viol \cup {"double"} ELSE viol
          /\ uncons' = [uncons EXCEPT ![u] = TRUE]
  /\ UNCHANGED <<fired, mdata, ust, hs, hdata, susp, canc, nsusp, ncanc, ninv, kvars, evars, dvars>>
MergeUnote(u) == MergeUnoteD(u, mdata)

\* SR-9033: EPOLLHUP is unmaskable: every linked unote gets NEEDS_DELETE + an EOF event, the entry is deleted
BeginHup ==
  /\ mpc = "hup" /\ todo' = members
  /\ IF members = {} THEN /\ KDel /\ mpc' = "idle" /\ hupDel' = TRUE
                     ELSE /\ mpc' = "hup_m" /\ UNCHANGED <<kvars, hupDel>>
  /\ UNCHANGED <<fired, mdata, dmn, dEvents, dDis, members, evars, uvars, gvars>>
MergeHup(u) ==
  /\ mpc = "hup_m" /\ u \in todo
  /\ todo' = todo \ {u}
  /\ ust' = [ust EXCEPT ![u] = "ndel"] /\ uarm' = [uarm EXCEPT ![u] = FALSE]
  /\ pend' = [pend EXCEPT ![u] = EOF]
  /\ IF todo' = {} THEN /\ KDel /\ mpc' = "idle" /\ hupDel' = TRUE     \* epoll_ctl(DEL); return (no re-arm)
                   ELSE UNCHANGED <<kvars, mpc, hupDel>>
  /\ UNCHANGED <<fired, mdata, dmn, dEvents, dDis, members, hs, hdata, susp, canc, nsusp, ncanc, evars, gvars>>

\* events = _dispatch_muxnote_armed_events(dmn); if (events) _dispatch_epoll_update(dmn, events, EPOLL_CTL_MOD)
\* (events always holds EPOLLFREE | EPOLLONESHOT, so the MOD is made even when no direction is armed)
Rearm ==
  /\ mpc = "rearm"
  /\ LET mask == IF Mut = "rearm_fired_now" THEN dEvents \ (fired \cap Dirs) ELSE Armed
         skip == (Mut = "rearm_fired_now" /\ mask = {}) \/ Mut = "no_rearm"
     IN IF skip THEN UNCHANGED <<kvars, viol>>
        ELSE KMod(mask) /\ CtlChk(mask, dEvents, dDis)
  /\ mpc' = "idle" /\ UNCHANGED <<fired, todo, mdata, evars, dvars, uvars, uncons, ninv>>

(* ------------------------------ _dispatch_unote_resume_muxed (the re-arm pass of the source, on the manager) -- *)
\* reached from _dispatch_source_invoke2 on the manager when the unote needs a re-arm, nothing is pending
\* and the source is neither suspended nor cancelled
ResumeMux(u) ==
  /\ mpc = "idle" /\ ust[u] = "reg" /\ hs[u] = "idle" /\ pend[u] = None /\ ~susp[u] /\ ~canc[u]
  /\ ~uarm[u] /\ uncons[u]
  /\ LET d == Dir(u) IN
     IF d \in dDis THEN
       LET dis == dDis \ {d}
           mask == ArmedOf(dEvents, dis)
       IN /\ dDis' = dis
          /\ IF Mut = "resume_no_mod" THEN UNCHANGED <<kvars, viol>>
             ELSE KMod(mask) /\ CtlChk(mask, dEvents, dis)
     ELSE UNCHANGED <<dDis, kvars, viol>>
  /\ uarm' = [uarm EXCEPT ![u] = Fix]            \* pinned: DU_STATE_ARMED is never set again on this backend
  /\ uncons' = [uncons EXCEPT ![u] = FALSE]
  /\ UNCHANGED <<dmn, dEvents, members, hupDel, ust, pend, hs, hdata, susp, canc, nsusp, ncanc, ninv, evars, mvars>>

(* ------------------------------ _dispatch_unote_unregister_muxed ------------------------------ *)
\* the muxnote bookkeeping, transcribed statement by statement
UnregMux(u) ==
  LET m1 == members \ {u}
      emptyDirs == {d \in Dirs : {x \in m1 : Dir(x) = d} = {}}
      events == dEvents \ emptyDirs                       \* local `events`
      dis1 == dDis \ emptyDirs                            \* if (dmn_disarmed_events & D) { both cleared }
      ev1 == dEvents \ (emptyDirs \cap dDis)
  IN /\ members' = m1
     /\ IF events # {} THEN
          IF Mut = "unreg_keeps_mask" THEN
            /\ dEvents' = events /\ dDis' = dis1 /\ UNCHANGED <<kvars, viol, dmn, hupDel>>
          ELSE IF events # ArmedOf(ev1, dis1) THEN
            LET mask == ArmedOf(events, dis1) IN          \* dmn_events = events; MOD(armed)
            /\ dEvents' = events /\ dDis' = dis1
            /\ KMod(mask) /\ CtlChk(mask, events, dis1) /\ UNCHANGED <<dmn, hupDel>>
          ELSE /\ dEvents' = ev1 /\ dDis' = dis1 /\ UNCHANGED <<kvars, viol, dmn, hupDel>>
        ELSE   \* last unote: EPOLL_CTL_DEL, _dispatch_muxnote_dispose
          /\ (IF Mut = "last_leaves_no_del" THEN UNCHANGED kvars ELSE KDel)
          /\ dmn' = FALSE /\ dEvents' = {} /\ dDis' = {} /\ hupDel' = FALSE /\ UNCHANGED viol

\* cancel path: _dispatch_source_invoke2 on the manager, the handler is not running (drain lock)
Unregister(u) ==
  /\ mpc = "idle" /\ canc[u] /\ ust[u] = "reg" /\ hs[u] = "idle" /\ ~susp[u]
  /\ UnregMux(u)
  /\ ust' = [ust EXCEPT ![u] = "gone"] /\ uarm' = [uarm EXCEPT ![u] = FALSE]
  /\ pend' = [pend EXCEPT ![u] = None]          \* a cancelled source never latches again
  /\ uncons' = [uncons EXCEPT ![u] = FALSE]
  /\ UNCHANGED <<hs, hdata, susp, canc, nsusp, ncanc, ninv, evars, mvars>>

\* hang-up path: DU_STATE_NEEDS_DELETE is acknowledged by the source's invoke on its TARGET queue, which calls
\* _dispatch_unote_unregister_muxed there (not on the manager; the data race on the muxnote lists that this
\* implies in C is not visible at this level of atomicity)
AckDelete(u) ==
  /\ ust[u] = "ndel" /\ hs[u] = "idle" /\ ~susp[u]
  /\ mpc \notin {"hup_m"} \/ u \notin todo
  /\ UnregMux(u)
  /\ ust' = [ust EXCEPT ![u] = "gone"] /\ uncons' = [uncons EXCEPT ![u] = FALSE]
  /\ todo' = todo \ {u} /\ UNCHANGED <<mpc, fired, mdata>>
  /\ UNCHANGED <<uarm, pend, hs, hdata, susp, canc, nsusp, ncanc, ninv, evars>>

(* ------------------------------ the event handler on the target queue ------------------------------ *)
\* _dispatch_source_latch_and_call: ds_data = ~xchg(ds_pending_data, 0); callout
HStartRaw(u) ==
  /\ pend[u] # None /\ hs[u] = "idle"
  /\ hdata' = [hdata EXCEPT ![u] = pend[u]] /\ pend' = [pend EXCEPT ![u] = None]
  /\ hs' = [hs EXCEPT ![u] = "run"]
  /\ ninv' = IF SoleDrainer(u) THEN [ninv EXCEPT ![u] = Min(@ + 1, MaxWrites + 3)] ELSE ninv
  /\ viol' = IF SoleDrainer(u) /\ avail = 0 /\ ~hup THEN viol \cup {"empty_at_start"} ELSE viol
  /\ UNCHANGED <<ust, uarm, susp, canc, nsusp, ncanc, uncons, kvars, evars, dvars, mvars>>
HStart(u) == ~susp[u] /\ ~canc[u] /\ HStartRaw(u)
\* what the handler does to the descriptor: a draining reader reads it empty; a writer may fill the send buffer
HBody(u) ==
  /\ hs[u] = "run"
  /\ \/ u \in Drainers /\ avail' = 0 /\ UNCHANGED <<space, nf>>
     \/ u \in Writers /\ nf < MaxFills /\ space /\ space' = FALSE /\ nf' = nf + 1 /\ UNCHANGED avail
  /\ hs' = [hs EXCEPT ![u] = "done"]
  /\ UNCHANGED <<hup, nw, ust, uarm, pend, hdata, susp, canc, nsusp, ncanc, kvars, dvars, mvars, gvars>>
HEnd(u) ==
  /\ hs[u] = "done" \/ (hs[u] = "run" /\ u \notin Drainers)
  /\ hs' = [hs EXCEPT ![u] = "idle"] /\ hdata' = [hdata EXCEPT ![u] = None]
  /\ UNCHANGED <<ust, uarm, pend, susp, canc, nsusp, ncanc, kvars, evars, dvars, mvars, gvars>>

MgrStep == EpollWait \/ BeginIn \/ BeginOut \/ BeginHup \/ Rearm
           \/ \E u \in Unotes : Register(u) \/ MergeUnote(u) \/ MergeHup(u) \/ ResumeMux(u) \/ Unregister(u)
SrcStep(u) == HStart(u) \/ HBody(u) \/ HEnd(u) \/ AckDelete(u)
EnvStep == PeerWrite \/ PeerDrain \/ PeerClose
           \/ \E u \in Unotes : Activate(u) \/ Suspend(u) \/ Cancel(u)
Next == MgrStep \/ EnvStep \/ \E u \in Unotes : SrcStep(u) \/ ResumeSrc(u)

Spec == Init /\ [][Next]_vars
\* the manager and the target queues keep running; a suspended source is resumed; the peer drains what we sent.
\* The manager serves its queue in FIFO order and polls the kernel in between: each of its idle-time choices gets
\* its turn although the others keep disabling it (strong fairness per choice).
MergeStep == BeginIn \/ BeginOut \/ BeginHup \/ Rearm \/ \E u \in Unotes : MergeUnote(u) \/ MergeHup(u)
FairSpec == Spec /\ WF_vars(MergeStep) /\ SF_vars(EpollWait) /\ WF_vars(PeerDrain)
            /\ \A u \in Unotes : /\ SF_vars(Register(u)) /\ SF_vars(ResumeMux(u)) /\ SF_vars(Unregister(u))
                                /\ WF_vars(SrcStep(u)) /\ WF_vars(ResumeSrc(u))

(* ------------------------------ the properties ------------------------------ *)
Quiet == mpc = "idle"
\* (1) at every EPOLL_CTL_ADD / MOD the interest set handed to the kernel is dmn_events & ~dmn_disarmed_events
CtlMaskIsArmedSet == "ctlmask" \notin viol
\* ... hence, between deliveries, the kernel's entry is enabled with exactly the armed directions
KernelMatchesMux == (Quiet /\ dmn /\ kreg) => (ken /\ kmask = Armed)
\* (2) disarmed <=> an event of that direction was delivered to a linked unote which has not re-armed yet
DisarmedImpliesUnconsumed ==
  Quiet => \A d \in dDis : \A u \in members : (Dir(u) = d /\ ust[u] = "reg") => uncons[u]
UnconsumedImpliesDisarmed ==
  (Quiet /\ ~Fix) => \A u \in members : (ust[u] = "reg" /\ uncons[u]) => Dir(u) \in dDis
\* a direction is enabled in the kernel only if no delivered event of that direction is still unconsumed
\* (holds in EVERY state, also inside _dispatch_event_merge_fd: ONESHOT keeps the entry disabled until the MOD)
EnabledOnlyIfConsumed ==
  ~Fix => \A u \in members : (ust[u] = "reg" /\ uncons[u] /\ kreg /\ ken) => Dir(u) \notin kmask
\* (3) no unote receives a second event while its previous one is pending or its handler is running
NoDoubleDelivery == "double" \notin viol
\* (4) the registration exists exactly while a unote is linked (the hang-up path deletes it early, once)
RegistrationExact ==
  /\ dmn <=> (members # {})
  /\ kreg => dmn
  /\ (Quiet /\ ~hupDel) => (kreg <=> dmn)
  /\ dmn => \A d \in Dirs : (d \in dEvents <=> \E u \in members : Dir(u) = d)
  /\ dDis \subseteq dEvents
\* API-level consequences (the oracles the driver evaluates on the real library)
\* (for the one reader that consumes; a second reader may find that its sibling drained the descriptor first)
ReadNeverZero == \A u \in Readers : (SoleDrainer(u) /\ hs[u] # "idle" /\ hdata[u] = 0) => hup   \* zero bytes only at end of file
ReaderFindsData == "empty_at_start" \notin viol
InvocationsLeWrites == \A u \in Unotes : SoleDrainer(u) => ninv[u] <= nw + (IF hup THEN 2 ELSE 0)
HandlerSerial == \A u \in Unotes : hs[u] # "idle" => hdata[u] # None

\* liveness: a registered, not cancelled source whose direction is ready gets its handler invoked
Deliverable(u) == ust[u] = "reg" /\ ~canc[u] /\ ~hupDel /\ Dir(u) \in Ready
Delivered(u) == [](Deliverable(u) ~> (hs[u] # "idle" \/ ~Deliverable(u)))
Live == \A u \in Unotes : Delivered(u)
=============================================================================
