--------------------------- MODULE MuxnoteTrace ---------------------------
(* Trace validation: executions of the real library recorded by harness/drv_mux.c (hooked build) must be behaviours
   of Muxnote.tla.  The records, in the one total order of the verification runtime:
     Ctl    an epoll_ctl the library made for the descriptor (interposed at the library/kernel boundary): op, the
            EPOLLIN/EPOLLOUT part of the mask, EPOLLONESHOT.  It is compared with the system call the bound spec
            action makes (ghost lctl): the action is named by the probe that follows on the same thread
            (epoll_add / epoll_rearm / epoll_del of unote u) or by the manager being at the end of
            _dispatch_event_merge_fd (Rearm, HupDel).  So every recorded epoll_ctl carries exactly the mask the
            muxnote state dictates (dmn_events & ~dmn_disarmed_events after the call's own bookkeeping), and a
            registration / re-arm / unregistration that makes NO system call must be one for which the spec makes none.
     Wait   an event epoll_wait returned for the descriptor: EpollWaitF - only explained by an entry that exists, is
            enabled (no ONESHOT delivery since the last MOD) and has each reported direction in its interest mask.
     P      probes of event_epoll.c: merge_fd / merge_hup of unote u (must be a unote the list walk still owes),
            epoll_add, epoll_rearm, epoll_del (see Ctl).
     DU     stores to du_state (value checked against the unote's state), PD stores / exchanges of ds_pending_data:
            the manager's store IS MergeUnote / MergeHup (value = the event's data), the exchange IS the latch of
            the handler invocation (value = what was pending).
     HStart / Drained / Wrote / HEnd, Act / Cancel / Recreate / Susp / Res, PeerWrite / PeerClose: the driver's own.
   Silent steps (no record): the SIOCINQ / SIOCOUTQ sample + start of a list walk (BeginIn / BeginOut / BeginHup);
   a re-arm pass that finds its direction not disarmed (no system call, no probe: possible only with a sibling
   of the same direction); with Fix, skipping a unote that is not armed.
   The kernel's readiness is not tracked here (avail / space stay at their initial values): what is validated is
   the library against the muxnote contract, not the kernel. *)
EXTENDS Muxnote, Sequences, Json, IOUtils, TLCExt

Tr == ndJsonDeserialize(IOEnv.TRACE)
\* record 1 is a header written by the runner: {"e":"Header","nt":<number of threads>}
TraceThreads == 0..(Tr[1].nt - 1)

VARIABLES l,      \* next record
          pctl,   \* per thread: an epoll_ctl recorded and not yet attributed to its action
          mgrT,   \* the thread that called epoll_wait last (the manager)
          xid     \* current execution
tvars == <<vars, l, pctl, mgrT, xid>>

Rec == Tr[l]
Ev(e) == l <= Len(Tr) /\ Rec.e = e
Consume == l' = l + 1
ToSet(sq) == {sq[i] : i \in 1..Len(sq)}
U == Rec.u
T == Rec.t
NoPending == [t \in TraceThreads |-> NoCtl]
Same == UNCHANGED <<pctl, mgrT, xid>>
Val(v) == IF v = EOF THEN 0 ELSE v           \* ds_pending_data holds ~0 for an end of file as for "0 bytes"

TInit == Init /\ l = 2 /\ pctl = NoPending /\ mgrT = -1 /\ xid = -1 /\ TLCSet(1, 0)

TReset ==
  /\ Ev("Reset") /\ Consume /\ pctl' = NoPending /\ mgrT' = -1 /\ xid' = Rec.x
  /\ kreg' = FALSE /\ kmask' = {} /\ ken' = FALSE /\ lctl' = NoCtl
  /\ avail' = 0 /\ space' = TRUE /\ hup' = FALSE /\ nw' = 0 /\ nf' = 0
  /\ dmn' = FALSE /\ dEvents' = {} /\ dDis' = {} /\ rl' = {} /\ wl' = {} /\ hupDel' = FALSE
  /\ mpc' = "idle" /\ fired' = {} /\ todo' = {} /\ mdata' = 0
  /\ ust' = [u \in Unotes |-> "init"] /\ uarm' = [u \in Unotes |-> FALSE]
  /\ pend' = [u \in Unotes |-> None] /\ hs' = [u \in Unotes |-> "idle"] /\ hdata' = [u \in Unotes |-> None]
  /\ susp' = [u \in Unotes |-> FALSE] /\ canc' = [u \in Unotes |-> FALSE] /\ nsusp' = 0 /\ ncanc' = 0 /\ nrecr' = 0
  /\ uncons' = [u \in Unotes |-> FALSE] /\ enabler' = [d \in Dirs |-> "none"] /\ viol' = {}
  /\ ninv' = [u \in Unotes |-> 0]

(* ---------------- the driver's own records ---------------- *)
Nop(e) == Ev(e) /\ Consume /\ Same /\ UNCHANGED vars
TAct == Ev("Act") /\ Consume /\ Same /\ Activate(U)
TRecreate == Ev("Recreate") /\ Consume /\ Same /\ RecreateRaw(U) /\ UNCHANGED nrecr
TCancel == /\ Ev("Cancel") /\ Consume /\ Same
           /\ IF ~canc[U] /\ ust[U] \in {"reg", "ndel", "want"} THEN CancelRaw(U) /\ UNCHANGED ncanc ELSE UNCHANGED vars
TPeerWrite == /\ Ev("PeerWrite") /\ Consume /\ Same /\ nw' = nw + 1
              /\ UNCHANGED <<avail, space, hup, nf, kvars, lctl, dvars, mvars, uvars, gvars>>
TPeerClose == /\ Ev("PeerClose") /\ Consume /\ Same /\ hup' = TRUE
              /\ UNCHANGED <<avail, space, nw, nf, kvars, lctl, dvars, mvars, uvars, gvars>>
TOther == Nop("Susp") \/ Nop("Res") \/ Nop("Quiesce") \/ Nop("ChStart") \/ Nop("OracleFail")

(* ---------------- epoll_ctl ---------------- *)
RecCtl == [op |-> Rec.op, mask |-> ToSet(Rec.mask) \cap Dirs]
\* the system call the step just taken made is the one recorded on this thread (or none, if none was recorded)
CtlMatch(t) == lctl' = pctl[t] /\ pctl' = [pctl EXCEPT ![t] = NoCtl] /\ UNCHANGED <<mgrT, xid>>
\* hang-up acknowledgements run _dispatch_unote_unregister_muxed on the sources' target-queue threads, concurrently
\* with each other and with the manager (unlocked list operations in C): the order in which they took effect is not
\* the order of their probes, so the mask of their (failing or soon to be deleted) epoll_ctl is not compared
CtlLoose(t) == pctl' = [pctl EXCEPT ![t] = NoCtl] /\ UNCHANGED <<mgrT, xid>>
TCtl ==
  /\ Ev("Ctl") /\ Consume
  /\ Rec.op \in {"add", "mod"} => Rec.oneshot                   \* EV_DISPATCH sources: EPOLLONESHOT
  /\ \/ \* the trailing re-arm of _dispatch_event_merge_fd
        /\ mpc = "rearm" /\ T = mgrT /\ Rearm /\ lctl' = RecCtl /\ Same
     \/ \* the EPOLL_CTL_DEL of its hang-up path
        /\ mpc = "hup_m" /\ todo = {} /\ T = mgrT /\ HupDel /\ lctl' = RecCtl /\ Same
     \/ \* a registration whose EPOLL_CTL_MOD fails (the entry was deleted by a hang-up): no probe follows
        /\ ~Rec.ok /\ Rec.op = "mod" /\ dmn /\ ~kreg /\ mpc = "idle"
        /\ \E u \in Unotes : ust[u] = "want" /\ Dir(u) \notin Armed /\ Register(u)
        /\ lctl' = RecCtl /\ Same
     \/ \* register / resume / unregister: the probe that names the unote follows on this thread
        /\ ~(mpc \in {"rearm"} /\ T = mgrT) /\ ~(mpc = "hup_m" /\ todo = {} /\ T = mgrT)
        /\ pctl[T] = NoCtl /\ pctl' = [pctl EXCEPT ![T] = RecCtl]
        /\ UNCHANGED <<vars, mgrT, xid>>

(* ---------------- epoll_wait ---------------- *)
TWait ==
  /\ Ev("Wait") /\ Consume /\ pctl[T] = NoCtl
  /\ EpollWaitF(ToSet(Rec.ev) \cap (Dirs \cup {"hup"}))
  /\ mgrT' = T /\ UNCHANGED <<pctl, xid>>

(* ---------------- probes ---------------- *)
TProbe ==
  /\ Ev("P") /\ Consume
  /\ \/ Rec.p = "epoll_add" /\ Register(U) /\ ust'[U] = "reg" /\ CtlMatch(T)
     \/ Rec.p = "epoll_rearm" /\ Dir(U) \in dDis /\ ResumeMuxRaw(U) /\ CtlMatch(T)
     \/ Rec.p = "epoll_del" /\ UnregisterRaw(U) /\ CtlMatch(T)
     \/ Rec.p = "epoll_del" /\ AckDeleteRaw(U) /\ CtlLoose(T)
     \/ /\ Rec.p = "merge_fd" /\ mpc \in {"in_m", "out_m"} /\ U \in todo /\ T = mgrT
        /\ IF mpc = "in_m" THEN (Rec.b % 2) = 1 ELSE ((Rec.b \div 4) % 2) = 1   \* the delivery has the direction being walked
        /\ Same /\ UNCHANGED vars
     \/ Rec.p = "merge_hup" /\ mpc = "hup_m" /\ U \in todo /\ T = mgrT /\ Same /\ UNCHANGED vars

(* ---------------- du_state, ds_pending_data ---------------- *)
TDU ==
  /\ Ev("DU") /\ Consume /\ Same
  /\ IF mpc \in {"in_m", "out_m"} /\ U \in todo /\ T = mgrT THEN Rec.reg /\ ~Rec.armed /\ UNCHANGED vars
     ELSE IF mpc = "hup_m" /\ U \in todo /\ T = mgrT THEN Rec.ndel /\ ~Rec.armed /\ MarkDelete(U)
     ELSE /\ Rec.reg = (ust[U] \in {"reg", "ndel"})
          /\ Rec.reg => (Rec.armed = uarm[U] /\ Rec.ndel = (ust[U] = "ndel"))
          /\ UNCHANGED vars
TPD ==
  /\ Ev("PD") /\ Consume /\ Same
  /\ \/ Rec.op = "store" /\ Rec.set /\ T = mgrT /\ mpc \in {"in_m", "out_m"} /\ (Fix => uarm[U]) /\ MergeUnoteD(U, Rec.val)
          /\ (("double_sibling" \in viol' /\ "double_sibling" \notin viol) => PrintT(<<"SIBDBL", xid>>))
     \/ Rec.op = "store" /\ Rec.set /\ T = mgrT /\ mpc = "hup_m" /\ MergeHup(U)
     \/ Rec.op = "xchg" /\ Rec.set /\ Rec.val = Val(pend[U]) /\ HStartE(U, FALSE)

(* ---------------- the handler ---------------- *)
THStart ==
  /\ Ev("HStart") /\ Consume /\ Same
  /\ hs[U] = "run" /\ Rec.data = Val(hdata[U])
  /\ viol' = IF SoleDrainer(U) /\ Rec.avail = 0 /\ ~Rec.eof THEN viol \cup {"empty_at_start"} ELSE viol
  /\ UNCHANGED <<kvars, lctl, evars, dvars, mvars, uvars, uncons, enabler, ninv>>
TBody ==
  /\ (Ev("Drained") \/ Ev("Wrote")) /\ Consume /\ Same
  /\ hs[U] = "run" /\ hs' = [hs EXCEPT ![U] = "done"]
  /\ UNCHANGED <<ust, uarm, pend, hdata, susp, canc, nsusp, ncanc, nrecr, kvars, lctl, evars, dvars, mvars, gvars>>
THEnd == Ev("HEnd") /\ Consume /\ Same /\ HEndRaw(U)

(* ---------------- steps without a record ---------------- *)
TSilent ==
  /\ l <= Len(Tr) /\ UNCHANGED <<l, pctl, mgrT, xid>>
  /\ \/ BeginDir("in", 0) \/ BeginDir("out", 0) \/ BeginHup
     \/ \E u \in Unotes : Dir(u) \notin dDis /\ ResumeMuxRaw(u)
     \/ \E u \in Unotes : Fix /\ ~uarm[u] /\ MergeUnoteD(u, 0)

TNext == TReset \/ TAct \/ TRecreate \/ TCancel \/ TPeerWrite \/ TPeerClose \/ TOther \/ TCtl \/ TWait \/ TProbe
         \/ TDU \/ TPD \/ THStart \/ TBody \/ THEnd \/ TSilent

TSpec == TInit /\ [][TNext]_tvars

\* longest matched prefix, reported on rejection
MaxL == IF TLCGet(1) < l THEN TLCSet(1, l) ELSE TRUE
Accepted == l > Len(Tr)
StopWhenAccepted == Accepted => (PrintT("TRACE_ACCEPTED") /\ TLCSet("exit", TRUE))
Post == PrintT(<<"MAXL", TLCGet(1), Len(Tr)>>)
=============================================================================
