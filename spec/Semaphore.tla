----------------------------- MODULE Semaphore -----------------------------
(* dispatch_semaphore_t on Linux (src/semaphore.c:28-146, src/shims/lock.c POSIX sem_t).
   One action per shared-memory access / kernel call of the implementation:
     dispatch_semaphore_signal : os_atomic_inc2o(dsema_value, release); slow: sem_post
     dispatch_semaphore_wait   : os_atomic_dec2o(dsema_value, acquire); slow:
        timed   -> sem_timedwait ; on timeout fall into the undo loop
        NOW     -> undo loop: plain read of dsema_value, weak CAS orig -> orig+1 (relaxed)
        FOREVER -> sem_wait ("drain the wakeup" is the same call)
   Property C08 (permit conservation) is stated on ghost counters. *)
EXTENDS Integers, FiniteSets, Sequences, TLC

CONSTANTS Threads,     \* set of client threads
          V0s,         \* set of initial values explored (each >= 0)
          MaxCalls,    \* bound on API calls per thread (model checking only)
          Mut          \* "none" or the name of a spec mutation (non-vacuity runs)

Kinds == {"forever", "now", "timed"}

VARIABLES v0,         \* the value the semaphore was created with (never changes)
          value,      \* dsema_value
          ksem,       \* count of the kernel semaphore (sem_t)
          pc,         \* per thread control point
          kind,       \* per thread: timeout kind of the wait in progress
          orig,       \* per thread: local `orig` of the undo loop
          tmo,        \* per thread: the timeout step has been taken (ghost)
          calls,      \* per thread: number of API calls started
          sigStarted, \* ghost: dispatch_semaphore_signal calls started
          sigDone,    \* ghost: ... returned
          succ,       \* ghost: waits that returned 0
          fail,       \* ghost: waits that returned non-zero
          lastRet     \* per thread: last return value (-1 none; signal 0|1; wait 0 | 2 = timed out)

vars == <<v0, value, ksem, pc, kind, orig, tmo, calls, sigStarted, sigDone, succ, fail, lastRet>>

Init == /\ v0 \in V0s /\ value = v0 /\ ksem = 0
        /\ pc = [t \in Threads |-> "idle"]
        /\ kind = [t \in Threads |-> "forever"]
        /\ orig = [t \in Threads |-> 0]
        /\ tmo = [t \in Threads |-> FALSE]
        /\ calls = [t \in Threads |-> 0]
        /\ sigStarted = 0 /\ sigDone = 0 /\ succ = 0 /\ fail = 0
        /\ lastRet = [t \in Threads |-> -1]

Go(t, l) == pc' = [pc EXCEPT ![t] = l]

(* ------------------------------ API entry ------------------------------ *)
CallSignal(t) ==
    /\ pc[t] = "idle" /\ Go(t, "sig_inc")
    /\ calls' = [calls EXCEPT ![t] = @ + 1]
    /\ sigStarted' = sigStarted + 1
    /\ lastRet' = [lastRet EXCEPT ![t] = -1]
    /\ UNCHANGED <<v0, value, ksem, kind, orig, tmo, sigDone, succ, fail>>

CallWait(t, k) ==
    /\ pc[t] = "idle" /\ Go(t, "wait_dec")
    /\ kind' = [kind EXCEPT ![t] = k]
    /\ tmo' = [tmo EXCEPT ![t] = FALSE]
    /\ calls' = [calls EXCEPT ![t] = @ + 1]
    /\ lastRet' = [lastRet EXCEPT ![t] = -1]
    /\ UNCHANGED <<v0, value, ksem, orig, sigStarted, sigDone, succ, fail>>

(* --------------------------- dispatch_semaphore_signal --------------------------- *)
\* long value = os_atomic_inc2o(dsema, dsema_value, release); if (value > 0) return 0;
SigNeedsPost(nv) == IF Mut = "signal_ge" THEN ~(nv >= 0) ELSE ~(nv > 0)
SigInc(t) ==
    /\ pc[t] = "sig_inc"
    /\ value' = value + 1
    /\ IF SigNeedsPost(value + 1)
         THEN Go(t, "sig_post") /\ UNCHANGED <<sigDone, lastRet>>
         ELSE /\ Go(t, "idle") /\ sigDone' = sigDone + 1
              /\ lastRet' = [lastRet EXCEPT ![t] = 0]
    /\ UNCHANGED <<v0, ksem, kind, orig, tmo, calls, sigStarted, succ, fail>>

\* _dispatch_sema4_signal(&dsema->dsema_sema, 1): sem_post ; return 1
SigPost(t) ==
    /\ pc[t] = "sig_post"
    /\ ksem' = ksem + 1
    /\ Go(t, "idle") /\ sigDone' = sigDone + 1
    /\ lastRet' = [lastRet EXCEPT ![t] = 1]
    /\ UNCHANGED <<v0, value, kind, orig, tmo, calls, sigStarted, succ, fail>>

(* ---------------------------- dispatch_semaphore_wait ---------------------------- *)
RetOk(t) == /\ Go(t, "idle") /\ succ' = succ + 1 /\ fail' = fail
            /\ lastRet' = [lastRet EXCEPT ![t] = 0]
RetTimeout(t) == /\ Go(t, "idle") /\ fail' = fail + 1 /\ succ' = succ
                 /\ lastRet' = [lastRet EXCEPT ![t] = 2]

\* long value = os_atomic_dec2o(dsema, dsema_value, acquire); if (value >= 0) return 0;
WaitDec(t) ==
    /\ pc[t] = "wait_dec"
    /\ value' = value - 1
    /\ IF value - 1 >= 0
         THEN RetOk(t) /\ tmo' = tmo
         ELSE /\ UNCHANGED <<succ, fail, lastRet>>
              /\ CASE kind[t] = "timed"   -> Go(t, "w_timed") /\ tmo' = tmo
                   [] kind[t] = "now"     -> Go(t, "w_undo_read") /\ tmo' = [tmo EXCEPT ![t] = TRUE]
                   [] kind[t] = "forever" -> Go(t, "w_ksem") /\ tmo' = tmo
    /\ UNCHANGED <<v0, ksem, kind, orig, calls, sigStarted, sigDone>>

\* sem_timedwait succeeded
TimedOk(t) ==
    /\ pc[t] = "w_timed" /\ ksem > 0
    /\ ksem' = ksem - 1
    /\ RetOk(t)
    /\ UNCHANGED <<v0, value, kind, orig, tmo, calls, sigStarted, sigDone>>

\* sem_timedwait returned ETIMEDOUT (the full timeout elapsed; real time is not modelled)
TimedTimeout(t) ==
    /\ pc[t] = "w_timed"
    /\ tmo' = [tmo EXCEPT ![t] = TRUE]
    /\ Go(t, "w_undo_read")
    /\ UNCHANGED <<v0, value, ksem, kind, orig, calls, sigStarted, sigDone, succ, fail, lastRet>>

\* orig = dsema->dsema_value;  (plain read, not hookable: a silent step in traces)
UndoRead(t) ==
    /\ pc[t] = "w_undo_read"
    /\ orig' = [orig EXCEPT ![t] = value]
    /\ Go(t, IF value < 0 THEN "w_undo_cas" ELSE "w_ksem")
    /\ UNCHANGED <<v0, value, ksem, kind, tmo, calls, sigStarted, sigDone, succ, fail, lastRet>>

\* while (orig < 0) if (cmpxchgvw(dsema_value, orig, orig + 1, &orig, relaxed)) return TIMEOUT;
UndoCasOk(t) ==
    /\ pc[t] = "w_undo_cas" /\ value = orig[t]
    /\ value' = IF Mut = "undo_noinc" THEN value ELSE value + 1
    /\ RetTimeout(t)
    /\ UNCHANGED <<v0, ksem, kind, orig, tmo, calls, sigStarted, sigDone>>
UndoCasFail(t) ==
    /\ pc[t] = "w_undo_cas" /\ value # orig[t]
    /\ orig' = [orig EXCEPT ![t] = value]
    /\ Go(t, IF value < 0 THEN "w_undo_cas" ELSE "w_ksem")
    /\ UNCHANGED <<v0, value, ksem, kind, tmo, calls, sigStarted, sigDone, succ, fail, lastRet>>

\* _dispatch_sema4_wait: FOREVER, or "another thread called semaphore_signal(): drain the wakeup"
KsemWait(t) ==
    /\ pc[t] = "w_ksem" /\ ksem > 0
    /\ ksem' = ksem - 1
    /\ RetOk(t)
    /\ UNCHANGED <<v0, value, kind, orig, tmo, calls, sigStarted, sigDone>>

Lib(t) == SigInc(t) \/ SigPost(t) \/ WaitDec(t) \/ TimedOk(t) \/ TimedTimeout(t)
          \/ UndoRead(t) \/ UndoCasOk(t) \/ UndoCasFail(t) \/ KsemWait(t)

Call(t) == /\ calls[t] < MaxCalls
           /\ (CallSignal(t) \/ \E k \in Kinds : CallWait(t, k))

Step(t) == Call(t) \/ Lib(t)
Next == \E t \in Threads : Step(t)
Spec == Init /\ [][Next]_vars
\* fairness on library steps only (clients need not call); a timed wait must eventually time out
\* or succeed, which WF on Lib gives (TimedTimeout is always enabled in w_timed)
FairSpec == Spec /\ \A t \in Threads : WF_vars(Lib(t))

(* ------------------------------ properties (C08) ------------------------------ *)
TypeOK == /\ value \in Int /\ ksem \in Nat
          /\ pc \in [Threads -> {"idle", "sig_inc", "sig_post", "wait_dec", "w_timed",
                                 "w_undo_read", "w_undo_cas", "w_ksem"}]

\* at every moment: successful waits <= v + signals started
NoSpuriousSuccess == succ <= v0 + sigStarted

\* a wait returns non-zero only after its timeout step
TimeoutOnlyAfterTimeout == \A t \in Threads : lastRet[t] = 2 => tmo[t]

AllIdle == \A t \in Threads : pc[t] = "idle"
\* after all calls finish exactly v + signals - successes permits remain obtainable:
\* nothing is parked in the kernel semaphore and the counter says so
Conservation == AllIdle => (value = v0 + sigDone - succ /\ ksem = 0)

\* kernel permits are only ever posted for a waiter that is (or was) accounted in value
KsemBounded == ksem <= Cardinality({t \in Threads : pc[t] \in {"w_timed", "w_undo_read", "w_undo_cas", "w_ksem"}})

\* structural: the number of threads in the slow path equals the deficit, modulo in-flight signals
Blocked == {t \in Threads : pc[t] \in {"w_timed", "w_undo_read", "w_undo_cas", "w_ksem"}}
Posting == {t \in Threads : pc[t] = "sig_post"}
Deficit == Cardinality(Blocked) = ksem + Cardinality(Posting) + (IF value < 0 THEN -value ELSE 0)

\* liveness: an untimed waiter is released once enough signals arrived. Stated as: it is never
\* the case that a thread sits in the kernel wait forever while permits exceed the waiters.
WaiterReleased == \A t \in Threads :
    (pc[t] \in {"w_ksem", "w_timed"} /\ ksem > 0) ~> (pc[t] = "idle" \/ ksem = 0)
=============================================================================
